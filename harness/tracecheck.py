"""Batched validation of recorded traces against TraceSolve.tla (TLC, -workers 1)."""
import json, os, re
from . import tlc, tlaparse, common


def validate(batch, report=None, wd=None, cfg='TraceSolve', overrides=None):
    """-> list of (trace index, events consumed, next event or None) for every rejected trace."""
    if not batch:
        return []
    own = wd is None
    wd = wd or tlc.workdir()
    try:
        path = os.path.join(wd, 'traces.json')
        json.dump(batch, open(path, 'w'))
        r = tlc.run('TraceSolve', cfg=cfg, wd=wd, workers=1, env={'TRACE_FILE': path}, overrides=overrides, expect_violation=True)
        if report is not None:
            report.add_tlc(r)
        if r.violated:
            # an invariant of Solve.tla failed on a state reached while following a trace
            m = re.search(r'/\\ tid = (\d+)', r.log[r.log.find('is violated'):])
            t = int(m.group(1)) - 1 if m else -1
            return [(t, -1, {'invariant': r.violated})]
        acc = tlaparse.extract_printed(r.log, 'ACCEPTED')
        prog = tlaparse.extract_printed(r.log, 'PROGRESS')
        if acc is None or prog is None:
            raise common.MachineryError('TraceSolve did not report:\n' + r.log[-2000:])
        accepted = set(acc[1][1]) if isinstance(acc[1], tuple) else set(acc[1])
        out = []
        for i, tr in enumerate(batch):
            if (i + 1) not in accepted:
                k = prog[1][i]
                out.append((i, k, tr[k] if k < len(tr) else None))
        return out
    finally:
        if own:
            tlc.cleanup(wd)
