"""Independent interpreter for spec terms (never optyx, never NumPy).

Terms are the parsed TLA+ records of Terms.tla:
  {'k':'const','q':[n,d]} | {'k':'var','n':[base,i..]} | {'k':'par','p':id} |
  {'k':'bin','op':..,'l':..,'r':..} | {'k':'un','f':..,'a':..}
Exact evaluation with Fractions on the rational fragment; mpmath (50 digits) otherwise.
"""
from fractions import Fraction as Fr
import math
import mpmath

mpmath.mp.dps = 50
MP = mpmath.mp


class Irregular(Exception):
    """The point is outside the domain of the term, or too close to a singularity."""


def name_of(n):
    n = list(n)
    if len(n) == 1:
        return str(n[0])
    if len(n) == 2:
        return "%s[%d]" % (n[0], n[1])
    return "%s[%s]" % (n[0], ",".join(str(i) for i in n[1:]))


def q(x):
    return Fr(x[0], x[1])


def is_rational_fragment(t):
    k = t['k']
    if k in ('const', 'var', 'par'):
        return True
    if k == 'un':
        return t['f'] == 'neg' and is_rational_fragment(t['a'])
    return is_rational_fragment(t['l']) and is_rational_fragment(t['r'])


def has_var(t):
    k = t['k']
    if k in ('var', 'par'):
        return True       # a parameter exponent is differentiated like a variable one (x**p = exp(p ln x), x > 0)
    if k == 'const':
        return False
    if k == 'un':
        return has_var(t['a'])
    return has_var(t['l']) or has_var(t['r'])


def computed_exponent(t):
    """An exponent that is neither a literal nor a bare variable / parameter, and depends on one."""
    return t['k'] not in ('const', 'var', 'par') and has_var(t)


MARGIN = Fr(1, 1000)
BIG = 10 ** 6


def eval_exact(t, env, pars=None):
    """Exact value as a Fraction; raises Irregular outside the domain; TypeError if not rational."""
    k = t['k']
    if k == 'const':
        return q(t['q'])
    if k == 'var':
        return env[name_of(t['n'])]
    if k == 'par':
        return pars[t['p']]
    if k == 'un':
        if t['f'] == 'neg':
            return -eval_exact(t['a'], env, pars)
        if t['f'] == 'abs':
            return abs(eval_exact(t['a'], env, pars))
        raise TypeError('transcendental')
    l = eval_exact(t['l'], env, pars)
    r = eval_exact(t['r'], env, pars)
    op = t['op']
    if op == '+':
        return l + r
    if op == '-':
        return l - r
    if op == '*':
        return l * r
    if op == '/':
        if r == 0:
            raise Irregular('division by zero')
        return l / r
    if op == '**':
        if computed_exponent(t['r']) and l < MARGIN:
            raise Irregular('computed exponent with non-positive base')
        if r.denominator != 1:
            raise TypeError('fractional power')
        e = int(r)
        if abs(e) > 64:
            raise Irregular('huge exponent')
        if e < 0 and l == 0:
            raise Irregular('0 ** negative')
        return l ** e
    raise ValueError(op)


def robust_zero(t, env, pars):
    """The term is zero without any cancellation: with every leaf replaced by its absolute value and every subtraction by an
    addition it is still 0 (a sum of squares at the origin; not 0.3 + 0.2 - 0.5, which is +-1e-17 in doubles depending on the
    order of summation)."""
    def go(u):
        k = u['k']
        if k == 'const':
            return abs(Fr(u['q'][0], u['q'][1]))
        if k == 'var':
            return abs(Fr(env[name_of(u['n'])]))
        if k == 'par':
            return abs(Fr((pars or {})[u['p']]))
        if k == 'un':
            a = go(u['a'])
            if u['f'] in ('neg', 'abs', 'sqrt', 'sin', 'tan', 'sinh', 'tanh', 'asin', 'atan', 'asinh', 'atanh'):
                return a          # these vanish exactly where their argument does; only "zero or not" matters here
            return Fr(1)
        l, r = go(u['l']), go(u['r'])
        op = u['op']
        if op in '+-':
            return l + r
        if op == '*':
            return l * r
        if op == '/':
            return l if r != 0 else Fr(1)
        return l if r != 0 else Fr(1)      # a ** b vanishes with a (b > 0 assumed irrelevant: only used when the value is 0)
    try:
        return go(t) == 0
    except Exception:
        return False


class MPEval:
    """High-precision evaluation tracking the largest intermediate magnitude (for tolerances).
    `strict` enforces the regular-point margins of DESIGN.md 2.4."""

    def __init__(self, env, pars=None, strict=True, deriv=False):
        self.env = env
        self.pars = pars or {}
        self.mag = MP.mpf(0)
        self.strict = strict
        self.deriv = deriv
        self.size = 0

    def note(self, v):
        a = abs(v)
        if a > self.mag:
            self.mag = a
        if self.strict and a > BIG:
            raise Irregular('magnitude')
        return v

    def ev(self, t):
        self.size += 1
        k = t['k']
        if k == 'const':
            x = t['q']
            return self.note(MP.mpf(x[0]) / x[1])
        if k == 'var':
            v = self.env[name_of(t['n'])]
            return self.note(MP.mpf(v.numerator) / v.denominator if isinstance(v, Fr) else MP.mpf(v))
        if k == 'par':
            v = self.pars[t['p']]
            return self.note(MP.mpf(v.numerator) / v.denominator if isinstance(v, Fr) else MP.mpf(v))
        if k == 'un':
            a = self.ev(t['a'])
            if t['f'] == 'sqrt' and abs(a) < 1e-30 and not robust_zero(t['a'], self.env, self.pars):
                # the argument vanishes only in exact arithmetic (0.3 + 0.2 - 0.5): in doubles it is +-1e-17 and the
                # square root is NaN or 1e-8 - an ill-conditioned point, unlike sqrt(0*0 + 0*0)
                raise Irregular('sqrt of a zero that is not exact in floating point')
            return self.note(self.un(t['f'], a))
        l = self.ev(t['l'])
        r = self.ev(t['r'])
        op = t['op']
        if op == '+':
            return self.note(l + r)
        if op == '-':
            return self.note(l - r)
        if op == '*':
            return self.note(l * r)
        if op == '/':
            if abs(r) < (1e-3 if self.strict else 0) or r == 0:
                raise Irregular('small denominator')
            return self.note(l / r)
        if op == '**':
            if computed_exponent(t['r']) and l < 1e-3:
                # an exponent that is itself computed in floating point is an integer only up to rounding:
                # a negative base is then outside the domain of the float power (NaN), whatever the exact value
                raise Irregular('computed exponent with non-positive base')
            if self.deriv and has_var(t['r']) and l < 1e-3:
                # variable exponent: x**y = exp(y ln x) is differentiable only for x > 0
                raise Irregular('variable exponent with non-positive base')
            if r == int(r):
                e = int(r)
                if e < 0 and (abs(l) < (1e-3 if self.strict else 0) or l == 0):
                    raise Irregular('0 ** negative')
                if abs(e) > 64:
                    raise Irregular('huge exponent')
                return self.note(l ** e)
            if l < (1e-3 if self.strict else 0) or l <= 0:
                raise Irregular('non-integer power of non-positive base')
            return self.note(MP.power(l, r))
        raise ValueError(op)

    def un(self, f, a):
        m = 1e-3 if self.strict else 0
        if f == 'neg':
            return -a
        if f == 'abs':
            if self.deriv and abs(a) < m:
                raise Irregular('abs near 0')
            return abs(a)
        if f == 'sin':
            return MP.sin(a)
        if f == 'cos':
            return MP.cos(a)
        if f == 'tan':
            if abs(MP.cos(a)) < (1e-2 if self.strict else 0):
                raise Irregular('tan near pole')
            return MP.tan(a)
        if f == 'exp':
            if a > 14:
                raise Irregular('exp overflow')
            return MP.exp(a)
        if f in ('log', 'log2', 'log10'):
            if a < m or a <= 0:
                raise Irregular('log of non-positive')
            return {'log': MP.log, 'log2': lambda z: MP.log(z, 2), 'log10': MP.log10}[f](a)
        if f == 'sqrt':
            # the value sqrt(0) = 0 is regular; only its derivative is singular there
            if a < 0 or (a != 0 and a < m) or (self.deriv and a < m):
                raise Irregular('sqrt of non-positive')
            return MP.sqrt(a)
        if f == 'tanh':
            return MP.tanh(a)
        if f == 'sinh':
            if abs(a) > 14:
                raise Irregular('sinh overflow')
            return MP.sinh(a)
        if f == 'cosh':
            if abs(a) > 14:
                raise Irregular('cosh overflow')
            return MP.cosh(a)
        if f in ('asin', 'acos'):
            if abs(a) > 1 - m:
                raise Irregular('asin/acos domain')
            return MP.asin(a) if f == 'asin' else MP.acos(a)
        if f == 'atan':
            return MP.atan(a)
        if f == 'asinh':
            return MP.asinh(a)
        if f == 'acosh':
            if a < 1 + m:
                raise Irregular('acosh domain')
            return MP.acosh(a)
        if f == 'atanh':
            if abs(a) > 1 - m:
                raise Irregular('atanh domain')
            return MP.atanh(a)
        raise ValueError(f)


def evaluate(t, env, pars=None, deriv=False):
    """-> (value as float, tolerance). Raises Irregular at irregular points.
    deriv=True additionally treats kinks (abs at 0, sqrt at 0) as irregular."""
    if has_tiny(t):
        # extreme magnitudes: a tolerance proportional to the largest intermediate would be vacuous
        v, err = value_and_error(t, env, pars, deriv)
        return v, 1e4 * err + 1e-9 * abs(v)
    e = MPEval(env, pars, strict=True, deriv=deriv)
    v = e.ev(t)
    tol = 1e-10 * (1.0 + float(e.mag)) * max(1, e.size)
    return float(v), tol



# ---------------------------------------------------------------- running error bound
EPS = MP.mpf(2) ** -52
DPRIME = {
    'neg': lambda a: 1, 'abs': lambda a: 1, 'sin': lambda a: abs(MP.cos(a)), 'cos': lambda a: abs(MP.sin(a)),
    'tan': lambda a: 1 / MP.cos(a) ** 2, 'exp': lambda a: MP.exp(a), 'log': lambda a: 1 / abs(a),
    'log2': lambda a: 1 / abs(a * MP.log(2)), 'log10': lambda a: 1 / abs(a * MP.log(10)), 'sqrt': lambda a: 1 / (2 * MP.sqrt(a)) if a > 0 else 0,
    'tanh': lambda a: 1 - MP.tanh(a) ** 2, 'sinh': lambda a: MP.cosh(a), 'cosh': lambda a: abs(MP.sinh(a)),
    'asin': lambda a: 1 / MP.sqrt(1 - a * a), 'acos': lambda a: 1 / MP.sqrt(1 - a * a), 'atan': lambda a: 1 / (1 + a * a),
    'asinh': lambda a: 1 / MP.sqrt(1 + a * a), 'acosh': lambda a: 1 / MP.sqrt(a * a - 1), 'atanh': lambda a: 1 / abs(1 - a * a),
}


def value_and_error(t, env, pars=None, deriv=False):
    """(value, bound on the rounding error of a straightforward double-precision evaluation of this term).
    First-order running error analysis; used where magnitudes are extreme (tiny literals) and the
    magnitude-based tolerance of `evaluate` would be vacuous."""
    e = MPEval(env, pars, strict=True, deriv=deriv)

    def go(u):
        k = u['k']
        if k in ('const', 'var', 'par'):
            v = e.ev(u)
            return v, EPS * abs(v)
        if k == 'un':
            a, ea = go(u['a'])
            if u['f'] == 'sqrt' and abs(a) < 1e-30 and not robust_zero(u['a'], e.env, e.pars):
                raise Irregular('sqrt of a zero that is not exact in floating point')
            v = e.note(e.un(u['f'], a))
            return v, DPRIME[u['f']](a) * ea + EPS * abs(v)
        l, el = go(u['l'])
        r, er = go(u['r'])
        v = e.ev({'k': 'bin', 'op': u['op'], 'l': {'k': 'const', 'q': [0, 1]}, 'r': {'k': 'const', 'q': [0, 1]}}) if False else None
        op = u['op']
        if op == '+':
            v = l + r
            err = el + er
        elif op == '-':
            v = l - r
            err = el + er
        elif op == '*':
            v = l * r
            err = abs(l) * er + abs(r) * el
        elif op == '/':
            if abs(r) < 1e-3:
                raise Irregular('small denominator')
            v = l / r
            err = el / abs(r) + abs(l) * er / (r * r)
        else:
            if computed_exponent(u['r']) and l < 1e-3:
                raise Irregular('computed exponent with non-positive base')
            if r == int(r):
                n = int(r)
                if n < 0 and abs(l) < 1e-3:
                    raise Irregular('0 ** negative')
                v = l ** n
                err = abs(n) * abs(l) ** (n - 1) * el if l != 0 or n >= 1 else 0
            else:
                if l < 1e-3:
                    raise Irregular('non-integer power of non-positive base')
                v = MP.power(l, r)
                err = abs(v) * (abs(r) * el / l + abs(MP.log(l)) * er)
        if abs(v) > BIG:
            raise Irregular('magnitude')
        return v, err + EPS * abs(v)
    v, err = go(t)
    return float(v), float(err)


def has_tiny(t):
    k = t['k']
    if k == 'par':
        return t['p'] == 99
    if k in ('const', 'var'):
        return False
    if k == 'un':
        return has_tiny(t['a'])
    return has_tiny(t['l']) or has_tiny(t['r'])


def regular_for_derivative(t, env, pars=None):
    """The original expression must be smooth at the point for its derivative to be compared."""
    try:
        MPEval(env, pars, strict=True, deriv=True).ev(t)
        return True
    except Irregular:
        return False


def close(a, b, tol):
    if a is None or b is None:
        return False
    if math.isnan(a) or math.isinf(a):
        return False
    return abs(a - b) <= tol


def term_str(t):
    k = t['k']
    if k == 'const':
        x = q(t['q'])
        return str(x)
    if k == 'var':
        return name_of(t['n'])
    if k == 'par':
        return 'p%d' % t['p']
    if k == 'un':
        return '%s(%s)' % (t['f'], term_str(t['a']))
    return '(%s %s %s)' % (term_str(t['l']), t['op'], term_str(t['r']))
