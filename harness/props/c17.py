"""C17 - symbolic and compiled Hessians are the true symmetric second derivatives."""
import numpy as np
from .. import apirun, progjudge, interp
from ..common import pviolation, bump
from ..interp import name_of, Irregular
from .c01 import vlists
from .c03 import setof

ZERO = {'k': 'const', 'q': [0, 1]}


def second_regular(den, D, pt, pars):
    """The expression and its first derivatives must be smooth at the point."""
    if not interp.regular_for_derivative(den, pt, pars):
        return False
    return all(interp.regular_for_derivative(d, pt, pars) for d in D.values())


def observer(got, pred, sp, call, sg, prog, ctx, part):
    if pred['kind'] != 'S':
        return
    from optyx.core import autodiff
    den = pred['den']
    own_names = sorted(name_of(n) for n in setof(sp['vars']))
    H = {(name_of(k[0]), name_of(k[1])): v for k, v in (sp['H'].items() if isinstance(sp['H'], dict) else [])}
    if len(own_names) > 3:
        return

    def bad(obs, detail=None):
        pviolation(part, sg, obs, {'program': prog, 'den': interp.term_str(den), 'detail': detail},
                   own=part['_own'], prefixes=part['_prefixes'])

    pts = [pt for pt in ctx.points if second_regular(den, sp['D'], pt, ctx.pars)][:3]
    if not pts:
        bump(part, 'cases_without_regular_point_for_derivative')
    vm = ctx.varmap
    param_step(got, den, sp, own_names, vm, ctx, part, bad)
    lists = vlists(sp, own_names, ctx)
    foreign = [interp.name_of(n) for n in sorted(ctx.all_names) if interp.name_of(n) not in own_names][:1]
    if foreign and len(own_names) == 3:
        # supersets whose first and last own variable are exactly len - 1 apart while the interior is permuted or foreign
        a, b, c = own_names
        f = foreign[0]
        for extra in ([a, f, c, b], [c, b, f, a], [a, c, b, f], [f, b, a, c]):
            if extra not in lists:
                lists.append(extra)
    for V in lists:
        vars_ = [vm[n] for n in V]
        n = len(V)
        try:
            sym = autodiff.compute_hessian(got, vars_)
        except Exception as e:
            bad('compute_hessian raises %s' % type(e).__name__, {'V': V})
            return
        try:
            fn = autodiff.compile_hessian(got, vars_)
        except Exception as e:
            bad('compile_hessian raises %s' % type(e).__name__, {'V': V})
            return
        bump(part, 'closures', getattr(fn, '__name__', '?'))
        pb = progjudge.PointBuffer()
        for pt in pts:
            try:
                want = [[progjudge.oracle(H.get((V[i], V[j]), ZERO), pt, ctx.pars) for j in range(n)] for i in range(n)]
            except Irregular:
                bump(part, 'points_skipped_irregular')
                continue
            vals = progjudge.fvals(pt)
            try:
                have = np.asarray(fn(pb.at([float(pt[v]) for v in V])), dtype=float)
            except Exception as e:
                bad('compile_hessian callable raises %s' % type(e).__name__, {'V': V})
                return
            part['evaluations'] += 1
            if have.shape != (n, n):
                bad('compile_hessian: shape %s' % (have.shape,), {'V': V})
                return
            for i in range(n):
                for j in range(n):
                    w, tol = want[i][j]
                    tol = max(tol, ctx.looser * (1 + abs(w)))
                    if not interp.close(float(have[i, j]), w, tol):
                        bad('compile_hessian differs from the true second derivative',
                            {'V': V, 'entry': [i, j], 'got': float(have[i, j]), 'expected': w, 'closure': getattr(fn, '__name__', '?'),
                             'point': {k: str(v) for k, v in pt.items()}})
                        return
                    if have[i, j] != have[j, i] and not interp.close(float(have[i, j]), float(have[j, i]), tol):
                        bad('compile_hessian is not symmetric', {'V': V, 'entry': [i, j]})
                        return
                    try:
                        s = progjudge.tofloat(sym[i][j].evaluate(vals))
                    except Exception as e:
                        bad('compute_hessian entry raises %s on evaluation' % type(e).__name__, {'V': V, 'entry': [i, j]})
                        return
                    if not interp.close(s, w, tol):
                        bad('compute_hessian entry differs from the true second derivative',
                            {'V': V, 'entry': [i, j], 'got': s, 'expected': w, 'point': {k: str(v) for k, v in pt.items()}})
                        return


def param_step(got, den, sp, names, vm, ctx, part, bad):
    """A Hessian compiled while the parameter holds one value is called after Parameter.set."""
    from optyx.core import autodiff
    from fractions import Fraction as Fr
    from .c01 import _pars
    pids = set(_pars(den))
    if not pids or not ctx.pars or not names or len(names) > 3:
        return
    H = {(name_of(k[0]), name_of(k[1])): v for k, v in (sp['H'].items() if isinstance(sp['H'], dict) else [])}
    vars_ = [vm[n] for n in names]
    try:
        fn = autodiff.compile_hessian(got, vars_)
    except Exception:
        return
    for pid in pids:
        old = ctx.pars[pid]
        for new in (old + Fr(5, 4), Fr(1), old):
            ctx.parobjs[pid].set(float(new))
            pars2 = dict(ctx.pars)
            pars2[pid] = new
            try:
                for pt in ctx.points[:3]:
                    if not second_regular(den, sp['D'], pt, pars2):
                        continue
                    try:
                        want = [[progjudge.oracle(H.get((a, b), ZERO), pt, pars2) for b in names] for a in names]
                    except Irregular:
                        continue
                    have = np.asarray(fn(np.array([float(pt[n]) for n in names], dtype=float)), dtype=float)
                    part['evaluations'] += 1
                    for i in range(len(names)):
                        for j in range(len(names)):
                            if not interp.close(float(have[i, j]), want[i][j][0], want[i][j][1]):
                                bad('compiled Hessian does not follow a parameter changed after compiling', {'entry': [i, j], 'got': float(have[i, j]), 'expected': want[i][j][0], 'parameter': float(new)})
                                return
            finally:
                ctx.parobjs[pid].set(float(old))


def run(report, tier):
    apirun.run_config(report, 'MC_C01', observer=observer, report_kinds=('S',), overrides={'Want': '<-MC_WantH'})
    apirun.run_config(report, 'MC_C01M', observer=observer, report_kinds=('S',), overrides={'Want': '<-MC_WantH'})
    apirun.run_config(report, 'MC_C19R', observer=observer, report_kinds=('S',), tag='reductions',
                      overrides={'En': '<-MC_EnNeg', 'Want': '<-MC_WantHV', 'SingValues': '<-MC_NoSing'})
    if tier == 'thorough':      # one call deeper over a reduced alphabet (3 functions, 2 literals, operators + * **)
        apirun.run_config(report, 'MC_C01', observer=observer, report_kinds=('S',), overrides=dict({'MaxCalls': 3, 'Fns': '<-MC_FnsSmall', 'ScalarLits': '<-MC_ScalarLitsSmall', 'SOps': '<-MC_SOpsSmall', 'VOps': '<-MC_VOpsSmall', 'Indices': '<-MC_IndicesSmall'}, Want='<-MC_WantH'), tag='deep')
    return report.finish(
        rule='every Api program of <= MaxCalls calls with a scalar result over <= 3 variables: compute_hessian (every entry, both '
             'triangles) and compile_hessian for every permutation / superset variable list at up to 3 points regular for the '
             'expression and its first derivatives, against the spec second derivatives H = Simp(D(Simp(D(Den, v)), w)); '
             'TLC checks H symmetric and exact in normal form on the rational fragment (MC_Diff).',
        exhaustive=True)
