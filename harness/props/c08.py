"""C08 - linear problems are solved to the true LP optimum with the true status."""
import hashlib, warnings
import numpy as np
from .. import apirun, progjudge, common
from ..common import pviolation, bump
from ..interp import name_of
from .c16 import fbound, check_code_table
from .c05 import fq, lpsite

METHODS = ['auto', 'linprog', 'highs', 'highs-ds', 'highs-ipm']
REF_METHOD = {'auto': 'highs', 'linprog': 'highs', 'highs': 'highs', 'highs-ds': 'highs-ds', 'highs-ipm': 'highs-ipm'}
STATUS = {0: 'optimal', 1: 'max_iterations', 2: 'infeasible', 3: 'unbounded'}
KEEP = [0]      # 1 problem in KEEP[0] is solved (seeded sample of the enumerated problems)


def reference(lp, bounds, method):
    """The independently assembled matrix form (TLC's LP data) solved with the same LP solver."""
    from scipy.optimize import linprog
    c = np.array([fq(x) for x in lp['c']], dtype=float)
    if lp['sense'] == 'max':
        c = -c
    kw = {'c': c, 'method': method, 'bounds': bounds}
    if lp['ub']:
        kw['A_ub'] = np.array([[fq(x) for x in r['a']] for r in lp['ub']], dtype=float)
        kw['b_ub'] = np.array([fq(r['b']) for r in lp['ub']], dtype=float)
    if lp['eq']:
        kw['A_eq'] = np.array([[fq(x) for x in r['a']] for r in lp['eq']], dtype=float)
        kw['b_eq'] = np.array([fq(r['b']) for r in lp['eq']], dtype=float)
    r = linprog(**kw)
    obj = None
    if r.status == 0:
        obj = float(r.fun)
        if lp['sense'] == 'max':
            obj = -obj
        obj += fq(lp['c0'])
    return STATUS.get(int(r.status), 'failed'), obj


_SEEN = {}


def stratified_keep(ctx, part, h, n, per_shape=1):
    """Seeded 1-in-n sample, plus the first few problems of every API spelling (the sequence of call sites that built
    the problem and which handle became the objective), so that rare spellings are never sampled away."""
    def views(c):
        # which base vector / view the call reads (x, x[::-1], x[1:3], x[::2] are one operand kind but different columns)
        return ''.join('@h%d' % h for h in (c['a'], c['b']) if h and h <= ctx.nb and ctx.cur_heap[h - 1]['kind'] == 'V')
    key = ' ; '.join(progjudge.site(c, ctx.cur_heap) + views(c) for c in ctx.cur_calls[:-1]) + ' | obj=h%s' % (
        ctx.cur_calls[-1]['a'] if ctx.cur_calls[-1]['a'] <= ctx.nb else 'new')
    lp = (ctx.cur_preds[-1] or {}).get('lp') if isinstance(ctx.cur_preds[-1], dict) else None
    if lp:
        zero = lambda r: all(x[0] == 0 for x in r)
        key += ' | %s%s' % ('zero-row ' if any(zero(r['a']) for r in lp['ub'] + lp['eq']) else '', 'zero-cost' if zero(lp['c']) else '')
    seen = _SEEN      # per worker process
    k = seen.get(key, 0)
    seen[key] = k + 1
    if k < per_shape:
        bump(part, 'kept_as_first_of_their_spelling')
        return True
    return h % n == 0


def observer(got, pred, sp, call, sg, prog, ctx, part):
    if pred['kind'] != 'PR' or not sp['islp']:
        return
    h = int(hashlib.sha1((prog + str(common.seed())).encode()).hexdigest()[:8], 16)
    if not stratified_keep(ctx, part, h, KEEP[0]):
        return
    try:
        if not got._is_linear_problem():
            bump(part, 'not_treated_as_lp')
            return
    except Exception:
        return
    names = [name_of(n) for n in sp['vars']]
    if [v.name for v in got.variables] != names:
        bump(part, 'variable_order_differs_left_to_C16')
        return
    bounds = [(fbound(b[0]), fbound(b[1])) for b in sp['bounds']]
    ms = ['auto', METHODS[1 + h // 7 % 4]]

    def bad(obs, detail=None):
        pviolation(part, lpsite(pred), obs, {'program': prog, 'problem': progjudge.summarize(pred), 'detail': detail},
                   own=part['_own'], prefixes=part['_prefixes'])

    import optyx
    bump(part, 'problems_solved')
    for m, sense in [(mm, ss) for mm in ms for ss in ('min', 'max')]:
        lp = dict(sp['lp'], sense=sense)
        if sense == sp['lp']['sense']:
            prob = got
        else:
            prob = optyx.Problem()
            (prob.minimize if sense == 'min' else prob.maximize)(ctx.cur_objs[call['a']])
            if call['b']:
                prob.subject_to(ctx.cur_objs[call['b']])
        try:
            ref_status, ref_obj = reference(lp, bounds, REF_METHOD[m])
        except Exception as e:
            bump(part, 'reference_raises', type(e).__name__)
            continue
        for attempt in ('first', 'repeated'):
            with warnings.catch_warnings():
                warnings.simplefilter('ignore')
                try:
                    s = prob.solve(method=m)
                except Exception as e:
                    bad('solve raises %s on a linear problem' % type(e).__name__, {'method': m})
                    return
            part['evaluations'] += 1
            part['nontrivial'].add(prog)
            bump(part, 'verdicts', ref_status)
            if s.status.value != ref_status:
                bad('status differs from the reference LP (%s vs %s)' % (s.status.value, ref_status), {'method': m, 'sense': sense, 'solve': attempt})
                return
            if ref_status == 'optimal':
                if s.objective_value is None or abs(s.objective_value - ref_obj) > 1e-7 * (1 + abs(ref_obj)):
                    bad('optimal objective value differs from the reference LP', {'method': m, 'sense': sense, 'solve': attempt, 'got': s.objective_value, 'expected': ref_obj})
                    return
    # the same Problem object re-oriented with the same objective object, after it has been solved (LP data cached)
    flipped = 'max' if sp['lp']['sense'] == 'min' else 'min'
    try:
        ref_status, ref_obj = reference(dict(sp['lp'], sense=flipped), bounds, REF_METHOD['auto'])
    except Exception:
        return
    with warnings.catch_warnings():
        warnings.simplefilter('ignore')
        try:
            (got.minimize if flipped == 'min' else got.maximize)(ctx.cur_objs[call['a']])
            s = got.solve()
        except Exception as e:
            bad('solve raises %s after re-orienting a solved linear problem' % type(e).__name__)
            return
    part['evaluations'] += 1
    if s.status.value != ref_status:
        bad('status differs from the reference LP after re-orienting the solved problem (%s vs %s)' % (s.status.value, ref_status), {'sense': flipped})
    elif ref_status == 'optimal' and (s.objective_value is None or abs(s.objective_value - ref_obj) > 1e-7 * (1 + abs(ref_obj))):
        bad('optimal objective value differs from the reference LP after re-orienting the solved problem', {'sense': flipped, 'got': s.objective_value, 'expected': ref_obj})


def magnitude_chunk(idx, items):
    """Generated LPs whose data span 20 orders of magnitude, solved by every LP method under the recorder: the status
    must be the image of the linprog status code (Solve.tla LPReturn, validated on the recorded trace) and agree with a
    direct linprog call on hand-assembled matrices."""
    import optyx
    import scipy.optimize
    from .. import recorder
    part = {'violations': {}, 'counts': {}, 'evaluations': 0, 'traces_validated_against_impl': 0, 'nontrivial': set(),
            'samples': [], 'extra': {}, 'batch': []}
    real_lp = scipy.optimize.linprog
    rec = recorder.Recorder()
    rec.install()
    try:
        for scale, seed, sense, m in items:
            rng = common.rng('C08mag/%s/%d' % (scale, seed))
            n = 3
            cost = [rng.choice([1.0, 2.0, 3.0, 7.0, 0.3]) for _ in range(n)]
            w = [rng.choice([1.0, 3.0, 7.0, 0.7, 11.0]) for _ in range(n)]
            budget = scale * rng.choice([2.5, 7.0, 1.0, 3.3])
            floor_ = budget * rng.choice([0.1, 0.3])
            ub = [budget, budget / 2, budget / 3]
            x = optyx.VectorVariable('x', n, lb=0)
            for i in range(n):
                x[i].ub = ub[i]
            c = np.array(cost)
            p = optyx.Problem()
            (p.minimize if sense == 'min' else p.maximize)(c @ x)
            p.subject_to(np.array(w) @ x <= budget)
            p.subject_to(x.sum() >= floor_)
            A = np.array([w, [-1.0] * n])
            b = np.array([budget, -floor_])
            ref = real_lp(c if sense == 'min' else -c, A_ub=A, b_ub=b, bounds=[(0.0, u) for u in ub], method=REF_METHOD[m])
            ref_status = {0: 'optimal', 1: 'max_iterations', 2: 'infeasible', 3: 'unbounded'}.get(int(ref.status), 'failed')
            with warnings.catch_warnings():
                warnings.simplefilter('ignore')
                try:
                    s = p.solve(method=m)
                except Exception as e:
                    pviolation(part, 'LP[magnitude %g]' % scale, 'solve raises %s on a linear problem' % type(e).__name__, {'method': m})
                    continue
            part['evaluations'] += 1
            part['nontrivial'].add('%g/%d/%s' % (scale, seed, sense))
            if s.status.value != ref_status:
                pviolation(part, 'LP[magnitude %g]' % scale, 'status differs from the reference LP (%s vs %s)' % (s.status.value, ref_status),
                           {'method': m, 'sense': sense, 'cost': cost, 'weights': w, 'budget': budget, 'floor': floor_})
            elif ref_status == 'optimal':
                ro = float(ref.fun) if sense == 'min' else -float(ref.fun)
                if s.objective_value is None or abs(s.objective_value - ro) > 1e-7 * (1 + abs(ro)):
                    pviolation(part, 'LP[magnitude %g]' % scale, 'optimal objective value differs from the reference LP', {'method': m, 'got': s.objective_value, 'expected': ro})
    finally:
        rec.uninstall()
    part['batch'] = rec.batch()
    return part


def run(report, tier):
    from .. import histrun
    from .c13 import validate_traces
    items = [(sc, sd, sn, m) for sc in (1e-6, 1.0, 1e4, 1e8, 2.5e8, 7e9, 1e12) for sd in range(4 if tier == 'quick' else 40) for sn in ('min', 'max') for m in METHODS]
    batch = []
    for part in histrun.parallel(magnitude_chunk, items, chunk=14):
        batch += part.pop('batch')
        report.merge(part)
    validate_traces(report, batch, 'C08 magnitudes', keep=())
    KEEP[0] = 40 if tier == 'quick' else 3
    r = apirun.run_config(report, 'MC_C05', observer=observer, report_kinds=(),
                          overrides=None if tier == 'thorough' else {'ObjCands': '<- MC_ObjCandsQ'})
    check_code_table(r.log)
    return report.finish(
        rule='the linear problems enumerated by TLC for C05 (expression -> comparison -> Problem; scalar sums, vector reductions, c @ x, slices, '
             'constant sub-expressions, three senses, reflected comparisons; minimise and maximise; bounded, unbounded and infeasible instances '
             'arise from the declared bounds): a seeded 1-in-N sample is solved through optyx with auto plus one of linprog / highs / highs-ds / '
             'highs-ipm, twice each (LP cache hit), and compared in status and optimal objective with the matrix form assembled by TLC from the '
             'exact normal form and solved by the same linprog method, in both orientations. Plus generated budget LPs with data from 1e-6 to 1e12 x 5 methods '
             'x both orientations under the recorder: status = image of the linprog status code (TraceSolve.tla) and = a direct linprog call. distinct_nontrivial = enumerated programs; problems_solved = sampled problems.',
        exhaustive=False)
