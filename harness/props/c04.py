"""C04 - degree and linearity classification never under-reports."""
from fractions import Fraction as Fr
from .. import apirun, progjudge, interp, apiexec
from ..common import pviolation, bump
from ..interp import Irregular, MPEval, MP


def looks_polynomial(den, d, names, pars, rng):
    """(d+1)-th forward difference of the exact/high-precision value along lines: True if it vanishes
    on every usable line, False if it does not, None if no line stays inside the domain."""
    verdicts = []
    for attempt in range(14):
        if attempt % 2:
            # lines through the region where every variable exceeds 1 (inside the domain of sqrt / log / acosh)
            base = {n: Fr(rng.randint(9, 20), 8) for n in names}
            direc = {n: Fr(rng.randint(1, 5), 16) for n in names}
        else:
            # lines that cross sign changes and integers (kinks of |x|, (x**2)**0.5, ...)
            base = {n: Fr(rng.randint(-8, 2), 2) for n in names}
            direc = {n: Fr(rng.choice([1, 2, 3, -1, -3]), 2) for n in names}
        vals = []
        try:
            for k in range(d + 2):
                pt = {n: base[n] + k * direc[n] for n in names}
                vals.append(MPEval(pt, pars, strict=False).ev(den))
        except Irregular:
            continue
        diff = vals
        for _ in range(d + 1):
            diff = [diff[i + 1] - diff[i] for i in range(len(diff) - 1)]
        scale = max(abs(v) for v in vals) + 1
        verdicts.append(abs(diff[0]) <= scale * MP.mpf(10) ** -35)
        if len(verdicts) >= 6:
            break
    if not verdicts:
        return None
    return all(verdicts)


def fresh(ctx, calls):
    objs = progjudge.build_base(ctx)
    nb = len(ctx.base_calls)
    got = None
    for i, c in enumerate(calls):
        got = apiexec.execute(c, objs)
        objs[nb + i + 1] = got
    return got


def observer(got, pred, sp, call, sg, prog, ctx, part):
    if pred['kind'] != 'S':
        return
    from optyx import analysis
    den = pred['den']
    truth = sp['deg']
    names = sorted(interp.name_of(n) for n in ctx.all_names)

    def bad(obs, detail=None):
        pviolation(part, sg, obs, {'program': prog, 'den': interp.term_str(den), 'true_degree': truth, 'detail': detail},
                   own=part['_own'], prefixes=part['_prefixes'])

    claims = {}
    regimes = ['recursive', 'iterative', 'children-first', 'variables-first']
    if any(c['c'] == 'LinComb' for c in ctx.cur_calls):
        regimes.append('coefficients-refreshed')
    for traversal in regimes:
        if traversal == 'coefficients-refreshed':
            # a coefficient array is the caller's data table, referenced (not copied) by c @ v: the classification is
            # asked while the table still holds zeros, the real coefficients are written into it afterwards (in place);
            # what was remembered must still be an upper bound for the formula the expression now denotes
            objs = progjudge.build_base(ctx)
            nb = len(ctx.base_calls)
            e = None
            for i, c in enumerate(ctx.cur_calls):
                e = apiexec.execute(c, objs)
                objs[nb + i + 1] = e
            saved = {k: a.copy() for k, a in apiexec.SHARED.items()}
            for a in apiexec.SHARED.values():
                a[...] = 0
            for o in list(objs.values()):
                if hasattr(o, 'degree') and hasattr(o, 'get_variables') and not isinstance(o, (list, tuple)):
                    try:
                        o.degree
                        analysis.compute_degree(o)
                        o.is_linear()
                    except Exception:
                        pass
            for k, a in apiexec.SHARED.items():
                a[...] = saved[k]
        elif traversal == 'variables-first':
            # other queries come first (repr(problem), .variables, constraint.get_variables() all collect variables):
            # whatever they memoise on the nodes and on their vector operands must not change the classification
            objs = progjudge.build_base(ctx)
            nb = len(ctx.base_calls)
            e = None
            for i, c in enumerate(ctx.cur_calls):
                e = apiexec.execute(c, objs)
                objs[nb + i + 1] = e
            for o in list(objs.values()):
                if hasattr(o, 'get_variables'):
                    try:
                        o.get_variables()
                        repr(o)
                    except Exception:
                        pass
        elif traversal == 'children-first':
            # every intermediate object is classified before its parent: per-node cached answers feed the parent
            objs = progjudge.build_base(ctx)
            nb = len(ctx.base_calls)
            e = None
            for i, c in enumerate(ctx.cur_calls):
                e = apiexec.execute(c, objs)
                objs[nb + i + 1] = e
                for o in list(objs.values()):
                    if hasattr(o, 'degree') and hasattr(o, 'get_variables') and not isinstance(o, (list, tuple)):
                        try:
                            o.degree
                            o.is_linear()
                        except Exception:
                            pass
        else:
            e = got if traversal == 'recursive' else fresh(ctx, ctx.cur_calls)
        saved = analysis._RECURSION_THRESHOLD
        try:
            if traversal == 'iterative':
                analysis._RECURSION_THRESHOLD = 0
            try:
                d0 = analysis.compute_degree(e)
                d1 = e.degree
                d2 = e.degree
                lin = bool(e.is_linear()) and True
                lin2 = bool(analysis.is_linear(e))
                quad = bool(analysis.is_quadratic(e))
            except Exception as ex:
                bump(part, 'degree_raises', '%s: %s' % (sg, type(ex).__name__))
                continue
        finally:
            analysis._RECURSION_THRESHOLD = saved
        part['evaluations'] += 1
        for name, d in (('compute_degree', d0), ('.degree', d1), ('.degree (cached)', d2)):
            if d is not None:
                claims.setdefault(int(d), []).append('%s/%s' % (traversal, name))
        if lin or lin2:
            claims.setdefault(1, []).append('%s/is_linear' % traversal)
        if quad:
            claims.setdefault(2, []).append('%s/is_quadratic' % traversal)
    for d, who in sorted(claims.items()):
        if d < 0:
            bad('negative degree reported (hence classified as linear)', {'claimed': d, 'by': who})
            return
        if truth >= 0:
            if truth > d:
                bad('reported degree is smaller than the true total degree', {'claimed': d, 'by': who})
                return
            continue
        # not a polynomial by normal form (or undecided): confirm numerically before reporting
        v = looks_polynomial(den, d, names, ctx.pars, ctx.rng)
        if v is None:
            bump(part, 'undecided_no_line_in_domain')
        elif v is False:
            bad('finite degree reported for an expression that is not a polynomial of that degree', {'claimed': d, 'by': who})
            return
        else:
            bump(part, 'nonrational_form_but_numerically_polynomial')


def run(report, tier):
    apirun.run_config(report, 'MC_C04', observer=observer, report_kinds=('S',))
    if tier == 'thorough':      # one call deeper over a reduced alphabet
        apirun.run_config(report, 'MC_C04', observer=observer, report_kinds=('S',), tag='deep',
                          overrides={'MaxCalls': 3, 'ScalarLits': '<-MC_ScalarLitsSmall', 'SOps': '<-MC_SOpsSmall', 'VOps': '<-MC_SOpsSmall'})
    return report.finish(
        rule='every Api program of <= MaxCalls calls over the C04 signature with a scalar result: compute_degree, .degree (twice), '
             'is_linear, is_quadratic on the recursive and the forced-iterative traversal (fresh objects) against the exact total '
             'degree of the normal form computed by TLC; a claimed finite degree for a non-rational form is confirmed by a '
             '(d+1)-th finite difference at 50 digits before it is reported. Only the implication "claimed d => true degree <= d" is checked.',
        exhaustive=True)
