"""C13 - editing a model invalidates everything derived from the old model."""
from .. import histrun, histgraph, concrete, recorder, tracecheck, common
from ..common import pviolation, bump

KINDS = ('scalar', 'vector')


def history_site(h, i):
    """Identity of a divergence: the last edit before the observation, and the observation."""
    edits = [o['op'] for o in h[:i] if o['op'] not in ('Solve', 'ReadVars')]
    last_edit = edits[-1] if edits else '-'
    warm = any(o['op'] in ('Solve', 'ReadVars') for o in h[:i])
    return '%s ; %s{%s}' % (last_edit, histgraph.op_str(h[i]), 'cache warm' if warm else 'cold')


def replay_chunk(idx, hists):
    part = {'violations': {}, 'counts': {}, 'evaluations': 0, 'traces_validated_against_impl': 0, 'nontrivial': set(),
            'samples': [], 'extra': {}, 'batch': []}
    rec = recorder.Recorder()
    rec.install()
    try:
        for n, h in enumerate(hists):
            for kind in KINDS:
                rp = concrete.Replay(kind)
                text = '; '.join(histgraph.op_str(o) for o in h)
                for i, op in enumerate(h):
                    try:
                        diff = rp.apply(op)
                    except Exception as e:
                        diff = 'raises %s' % type(e).__name__
                    part['evaluations'] += 1
                    if diff:
                        pviolation(part, history_site(h, i), diff.split(':')[0].split('(')[0].strip(),
                                   {'history': text, 'concretisation': kind, 'step': i, 'detail': diff})
                        break
                part['traces_validated_against_impl'] += 1
                part['nontrivial'].add(text)
            if len(part['samples']) < 1:
                part['samples'].append({'history': text})
    finally:
        rec.uninstall()
    part['batch'] = rec.batch()
    return part


OBS_FLAGS = ('namesOK', 'hook_restored', 'reclimit_restored', 'objOK', 'keysOK', 'bounds_current', 'params_current', 'optsOK')


def mask(batch, keep):
    """Observation flags that belong to other properties are neutralised, so that a trace is still
    followed to its end by the trace spec (a rejection stops the validation of that trace)."""
    out = []
    for tr in batch:
        t2 = []
        for ev in tr:
            ev = dict(ev)
            for f in OBS_FLAGS:
                if f in ev and (f, ev['ev']) not in keep and f not in keep:
                    ev[f] = True
            t2.append(ev)
        out.append(t2)
    return out


def validate_traces(report, batch, label, keep=OBS_FLAGS):
    """Direction B: every recorded execution must be a behaviour of Solve.tla."""
    batch = mask(batch, keep)
    rej = tracecheck.validate(batch, report)
    report.extra['traces_recorded'] = report.extra.get('traces_recorded', 0) + len(batch)
    report.extra['trace_events'] = report.extra.get('trace_events', 0) + sum(len(t) for t in batch)
    for i, k, ev in rej:
        tr = batch[i]
        if k < 0:
            report.violation('trace', 'invariant %s violated on a recorded execution' % ev['invariant'], {'trace': tr})
            continue
        what = ev['ev'] if ev else 'end of trace (solve still in progress in the spec)'
        ctx = [e for e in tr[max(0, k - 4):k + 1]]
        report.violation('trace rejected at %s' % what, reject_reason(tr, k), {'events_accepted': k, 'context': ctx, 'source': label})
    return rej


def reject_reason(tr, k):
    """Name the clause of the trace spec that the rejected event most plausibly fails (a rejection has no counterexample)."""
    if k >= len(tr):
        return 'trace ended inside a solve'
    ev = tr[k]
    flags = [f for f in OBS_FLAGS if ev.get(f) is False]
    if flags:
        return 'recorded observation false: ' + ','.join(flags)
    if ev['ev'] == 'Return':
        last = next((e for e in reversed(tr[:k]) if e['ev'] == 'SolverExit'), None)
        return 'status %s not allowed after solver outcome %s' % (ev['status'], {a: last[a] for a in ('success', 'msg', 'x', 'lp', 'raised')} if last else None)
    if ev['ev'] == 'SolverEnter':
        return 'solver entry differs from the spec (method=%s has_hess=%s rebuilt=%s hook_swapped=%s n_cons=%s)' % (
            ev['method'], ev['has_hess'], ev['rebuilt'], ev['hook_swapped'], ev['n_cons'])
    return 'event %s not enabled in the spec here' % ev['ev']


def run(report, tier):
    r = histrun.model_check(report)
    g = histrun.history_graph(report)
    rng = common.rng('C13')
    triples = list(g.triples())
    report.extra['invalidation_triples_in_model'] = len(triples)
    k = 1200 if tier == 'quick' else 12000
    sample, report.extra['strata (fill, edit, observation) all covered'] = histgraph.stratified(triples, k, rng)
    repl = histgraph.replacement_histories(triples)
    report.extra['objective replacement matrix (o1, constraint?, method, o2)'] = len(repl)
    seen = set(map(id, sample))
    sample += [h for h in repl if id(h) not in seen]
    batch = []
    for part in histrun.parallel(replay_chunk, sample):
        batch += part.pop('batch')
        report.merge(part)
    validate_traces(report, batch, 'C13 replay', keep=('bounds_current', ('namesOK', 'ReadVars')))
    from .. import suitetrace
    suitetrace.validate(report, keep=('bounds_current', ('namesOK', 'ReadVars')))
    return report.finish(
        rule='Solve.tla model-checked to fixpoint (all invariants). From the labelled state graph of the success-only instance every '
             '(cache-filled state, edit, observation) triple is a history; the shortest history of every (cache-filling operation, edit, observation) stratum plus a seeded sample is replayed on 2 concretisations each; every '
             'solve / variables read is compared with a fresh Problem built from the same objects; all executions are recorded and '
             'validated against TraceSolve.tla. distinct_nontrivial = distinct histories.',
        exhaustive=False)
