"""C01 - compiled callables compute the same function as the expression tree (= the formula)."""
import numpy as np
from .. import apirun, progjudge, interp, common
from ..common import pviolation, bump, pkey
from ..interp import name_of, Irregular


def vlists(sp, names, ctx):
    vs = sp.get('Vs')
    out = []
    if isinstance(vs, tuple) and vs[0] == 'set':
        out = [[name_of(n) for n in v] for v in vs[1]]
    if not out:
        foreign = [name_of(n) for n in ctx.all_names if name_of(n) not in names]
        out = [list(names), list(reversed(names)), names[1:] + names[:1]]
        if foreign:
            out.append([foreign[0]] + list(names))
            out.append(list(reversed(names)) + foreign[:2])
    return out


def observer(got, pred, sp, call, sg, prog, ctx, part):
    if pred['kind'] != 'S':
        return
    from optyx.core import compiler
    den = pred['den']
    names = sorted(name_of(n) for n in (sp['vars'][1] if isinstance(sp['vars'], tuple) else sp['vars']))
    vm = ctx.varmap
    calls_key = prog
    pts = []
    for pt in ctx.points:
        try:
            pts.append((pt, progjudge.oracle(den, pt, ctx.pars)))
        except Irregular:
            continue
    pts = pts[:3]

    def bad(obs, detail=None):
        pviolation(part, sg, obs, {'program': prog, 'den': interp.term_str(den), 'detail': detail},
                   own=part['_own'], prefixes=part['_prefixes'])

    for V in vlists(sp, names, ctx):
        vars_ = [vm[n] for n in V]
        for path in ('first', 'cached', 'iterative', 'dict', 'CompiledExpression'):
            saved = compiler._RECURSION_THRESHOLD
            try:
                if path == 'iterative':
                    compiler._compile_cached.cache_clear()
                    compiler._RECURSION_THRESHOLD = 0
                if path == 'dict':
                    f = compiler.compile_to_dict_function(got, vars_)
                elif path == 'CompiledExpression':
                    f = compiler.CompiledExpression(got, vars_).value
                else:
                    f = compiler.compile_expression(got, vars_)
            except Exception as e:
                bad('compile raises %s' % type(e).__name__, {'V': V, 'path': path})
                return
            finally:
                compiler._RECURSION_THRESHOLD = saved
                if path == 'iterative':
                    compiler._compile_cached.cache_clear()
            bump(part, 'compile_paths', path)
            pb = progjudge.PointBuffer()
            for pt, (want, tol) in pts:
                try:
                    if path == 'dict':
                        have = progjudge.tofloat(f({n: float(pt[n]) for n in V}))
                    else:
                        have = progjudge.tofloat(f(pb.at([float(pt[n]) for n in V])))
                except Exception as e:
                    bad('compiled callable raises %s' % type(e).__name__, {'V': V, 'path': path})
                    return
                part['evaluations'] += 1
                if not interp.close(have, want, max(tol, ctx.looser * (1 + abs(want)))):
                    bad('compiled value differs from the formula (%s path)' % ('iterative' if path == 'iterative' else 'recursive'),
                        {'V': V, 'path': path, 'got': have, 'expected': want, 'point': {k: str(v) for k, v in pt.items()}})
                    return
    # parameters are read at call time: change the value after compiling
    if ctx.pars and any(True for _ in _pars(den)):
        from fractions import Fraction as Fr
        vars_ = [vm[n] for n in names]
        try:
            f = compiler.compile_expression(got, vars_)
        except Exception:
            return
        pobjs = ctx.parobjs
        for pid in set(_pars(den)):
            old = ctx.pars[pid]
            new = old + Fr(3, 4)
            pobjs[pid].set(float(new))
            try:
                pars2 = dict(ctx.pars)
                pars2[pid] = new
                for pt in ctx.points[:3]:
                    try:
                        want, tol = progjudge.oracle(den, pt, pars2)
                    except Irregular:
                        continue
                    have = progjudge.tofloat(f(np.array([float(pt[n]) for n in names], dtype=float)))
                    have2 = progjudge.tofloat(got.evaluate({k: float(v) for k, v in pt.items()}))
                    part['evaluations'] += 1
                    if not interp.close(have, want, tol) or not interp.close(have2, want, tol):
                        bad('parameter changed after compiling is not honoured', {'got': have, 'evaluate': have2, 'expected': want})
                        return
            except Exception as e:
                bad('compiled callable raises %s after Parameter.set' % type(e).__name__)
                return
            finally:
                pobjs[pid].set(float(old))


def _pars(t):
    k = t['k']
    if k == 'par':
        if t['p'] != 99:          # 99 is the scale atom of "tiny" literals, not a Parameter
            yield t['p']
    elif k == 'un':
        yield from _pars(t['a'])
    elif k == 'bin':
        yield from _pars(t['l'])
        yield from _pars(t['r'])


def run(report, tier):
    apirun.run_config(report, 'MC_C01', observer=observer, report_kinds=('S',))
    apirun.run_config(report, 'MC_C01M', observer=observer, report_kinds=('S',))
    apirun.run_config(report, 'MC_C12', observer=observer, report_kinds=('S',), overrides={'Want': '<-MC_WantV'}, tag='params')      # several parameters, two of them with the same name
    if tier == 'thorough':
        apirun.run_config(report, 'MC_C01', observer=observer, report_kinds=('S',), overrides={'MaxCalls': 3, 'Fns': '<-MC_FnsSmall', 'ScalarLits': '<-MC_ScalarLitsSmall'}, tag='deep')
    return report.finish(
        rule='every Api program of <= MaxCalls calls over the C01 signature (scalars, 19 functions, vector reductions, a '
             'parameter) whose newest object is scalar: compile_expression / compile_to_dict_function / CompiledExpression.value '
             'for every permutation of its variables and supersets with a foreign variable, on the cache-miss, cache-hit and '
             'forced-iterative paths, at up to 3 regular rational points, compared with the exact denotation; parameters are '
             'changed after compiling. distinct_nontrivial = distinct programs.',
        exhaustive=True)
