"""C06 - a solution reported OPTIMAL is feasible."""
from .. import schedrun, histrun, common, tracecheck
from ..common import pviolation, bump
from .c13 import validate_traces


def judge(part, b, res, text, site, kind):
    out = res['outcome']
    rets = [e for e in b['sched'] if e['e'] == 'ret']
    if out[0] == 'unexpected':
        bump(part, 'solver_entered_more_often_than_the_behaviour', schedrun.site_of(b))
        return
    if out[0] == 'solution' and rets:
        last = rets[-1]['r'] if not res['notes'] else rets[len(rets) - 1 - len([n for n in res['notes'] if 'not taken' in n])]['r'] if False else rets[-1]['r']
        if out[1] == 'optimal' and last['x'] != 'feas' and not any('not taken' in n for n in res['notes']):
            pviolation(part, schedrun.site_of(b), 'OPTIMAL at an infeasible point (%s after %s)' % (last['x'], 'success' if last['success'] else last['msg']),
                       {'behaviour': text, 'concretisation': kind, 'observed': out})
        if last['success'] and last['x'] == 'feas' and out[1] != 'optimal' and not any('not taken' in n for n in res['notes']):
            pviolation(part, schedrun.site_of(b), 'converged at a feasible point but not reported OPTIMAL (%s)' % out[1],
                       {'behaviour': text, 'concretisation': kind, 'observed': out})


LP_KEEP = [20]


def lp_observer(got, pred, sp, call, sg, prog, ctx, part):
    """Linear problems enumerated by TLC for C05: whatever optyx reports OPTIMAL must satisfy the constraints and
    bounds the spec derives from the program (exact terms), on the LP route."""
    import hashlib, warnings
    from fractions import Fraction as Fr
    from .. import interp, progjudge
    from ..interp import name_of
    from .c16 import fbound
    if pred['kind'] != 'PR' or not sp['islp']:
        return
    h = int(hashlib.sha1((prog + 'c06' + str(common.seed())).encode()).hexdigest()[:8], 16)
    from .c08 import stratified_keep
    if not stratified_keep(ctx, part, h, LP_KEEP[0], per_shape=1):
        return
    names = [name_of(n) for n in sp['vars']]
    for m in ('auto', ('highs-ds', 'highs-ipm', 'linprog')[h // 11 % 3]):
        with warnings.catch_warnings():
            warnings.simplefilter('ignore')
            try:
                s = got.solve(method=m)
            except Exception:
                bump(part, 'lp_solve_raises')
                return
        part['evaluations'] += 1
        bump(part, 'lp_statuses', s.status.value)
        if s.status.value != 'optimal':
            continue
        pt = {n: Fr(s.values[n]) for n in names if n in s.values}
        worst = None
        for c in pred['cons']:
            try:
                v = float(interp.eval_exact(c['den'], pt, {}))
            except Exception:
                continue
            viol = max(0.0, v) if c['sense'] == '<=' else max(0.0, -v) if c['sense'] == '>=' else abs(v)
            if viol > 1e-6 * (1 + abs(v)):
                worst = ('constraint %s %s 0 violated by %.3g' % (interp.term_str(c['den']), c['sense'], viol))
        for n, b in zip(names, sp['bounds']):
            lb, ub = fbound(b[0]), fbound(b[1])
            x = s.values.get(n)
            if x is None:
                continue
            if (lb is not None and x < lb - 1e-6 * (1 + abs(lb))) or (ub is not None and x > ub + 1e-6 * (1 + abs(ub))):
                worst = 'bound of %s violated (%r not in [%r, %r])' % (n, x, lb, ub)
        if worst:
            pviolation(part, 'Solve(%s/lp)' % m, 'OPTIMAL at an infeasible point (TLC-enumerated linear problem)',
                       {'program': prog, 'detail': worst, 'values': s.values}, own=part['_own'], prefixes=part['_prefixes'])
            return


REAL_METHODS = ['auto', 'SLSQP', 'trust-constr', 'L-BFGS-B', 'TNC', 'COBYLA', 'Nelder-Mead', 'Powell', 'BFGS', 'CG', 'Newton-CG', 'linprog', 'highs-ds']


def families(rng):
    """Generated feasible and infeasible problems (contradictory constraints, constraints against bounds,
    bounds binding at the optimum), linear and nonlinear."""
    import optyx
    out = []
    for k in range(3):
        a = rng.choice([1.0, 2.0, 3.5])
        b = rng.choice([0.5, 1.0, 4.0])
        def contradictory(nl):
            s = optyx.Variable('s', lb=-10, ub=10)
            return optyx.Problem().minimize(s ** 2 if nl else 2 * s).subject_to(s >= a).subject_to(s <= a - b - 1)
        def con_vs_bound(nl):
            t = optyx.Variable('t', lb=0, ub=a)
            u = optyx.Variable('u', lb=0, ub=a)
            return optyx.Problem().minimize((t - 1) ** 2 + u ** 2 if nl else t + u).subject_to(t + u >= 2 * a + b)
        def bound_active(nl):
            t = optyx.Variable('t', ub=a)
            u = optyx.Variable('u', lb=-b)
            return optyx.Problem().minimize((t - a - 4) ** 2 + (u + b + 3) ** 2 if nl else -t + u)
        def feasible(nl):
            v = optyx.VectorVariable('v', 2, lb=0, ub=a + 5)
            return optyx.Problem().minimize((v - 1).dot(v - 1) if nl else v.sum()).subject_to(v.sum() >= b)
        def nonlinear_infeasible(nl):
            t = optyx.Variable('t', lb=-3, ub=3)
            u = optyx.Variable('u', lb=-3, ub=3)
            return optyx.Problem().minimize(t + u if not nl else optyx.exp(t) + u ** 2).subject_to(t * t + u * u <= -a)
        def undefined_constraint(nl):
            # the constraint function is undefined (NaN) where the unconstrained minimum lies
            t = optyx.Variable('t')
            return optyx.Problem().minimize((t + a) ** 2 if nl else t).subject_to(optyx.sqrt(t) >= b / 8)
        def zero_bounds(nl):
            # every finite bound is 0 (the special value): lower bound 0 on t, upper bound 0 on u, both active
            t = optyx.Variable('t', lb=0)
            u = optyx.Variable('u', ub=0)
            return optyx.Problem().minimize((t + a) ** 2 + (u - b) ** 2 if nl else t - u)
        for name, f in (('zero-bounds', zero_bounds), ('undefined-constraint', undefined_constraint), ('contradictory', contradictory), ('constraint-vs-bound', con_vs_bound), ('bound-active', bound_active),
                        ('feasible', feasible), ('nonlinear-infeasible', nonlinear_infeasible)):
            for nl in (False, True):
                out.append(('%s/%s/a=%s,b=%s' % (name, 'nlp' if nl else 'lp', a, b), f, nl))
    return out


def real_chunk(idx, items):
    import warnings
    from .. import recorder
    part = {'violations': {}, 'counts': {}, 'evaluations': 0, 'traces_validated_against_impl': 0, 'nontrivial': set(),
            'samples': [], 'extra': {}, 'batch': []}
    rec = recorder.Recorder()
    rec.install()
    try:
        fams = families(common.rng('C06'))
        for i, m in items:
            name, f, nl = fams[i]
            prob = f(nl)
            with warnings.catch_warnings():
                warnings.simplefilter('ignore')
                try:
                    s = prob.solve(method=m)
                except Exception as e:
                    bump(part, 'real_solve_raises', type(e).__name__)
                    continue
            part['evaluations'] += 1
            part['traces_validated_against_impl'] += 1
            part['nontrivial'].add(name + '/' + m)
            if s.status.value == 'optimal':
                x = rec.xclass(prob, s.values)
                if x != 'feas':
                    pviolation(part, 'Solve(%s)' % m, 'OPTIMAL at an infeasible point (real solver, %s)' % x,
                               {'problem': name, 'values': s.values, 'message': s.message})
    finally:
        rec.uninstall()
    part['batch'] = rec.batch()
    return part


def run(report, tier):
    histrun.model_check(report)
    scheds = [b for b in schedrun.schedules(report, overrides={'FaultExcs': '{}'})]
    batch = []
    for part in histrun.parallel(schedrun.replay_chunk_factory(('entry',), judge), scheds, chunk=20):
        batch += part.pop('batch')
        part.pop('labels')
        report.merge(part)
    validate_traces(report, batch, 'C06 stubbed outcomes', keep=())
    fams = families(common.rng('C06'))
    items = [(i, m) for i, (n, f, nl) in enumerate(fams) for m in REAL_METHODS if not (nl and m in ('linprog', 'highs-ds'))]
    batch = []
    for part in histrun.parallel(real_chunk, items, chunk=12):
        batch += part.pop('batch')
        report.merge(part)
    validate_traces(report, batch, 'C06 real solvers', keep=())
    # edits between solves (bounds changed behind the problem's back, constraints added, objective replaced) with the real
    # solvers: histories of the Solve model graph; whatever is reported OPTIMAL must be feasible for the CURRENT bounds
    from . import c13
    from .. import histgraph
    g = histrun.history_graph(report)
    hs = [h for h in g.triples() if h[-1]['op'] == 'Solve' and sum(1 for o in h if o['op'] == 'Solve') >= 2]
    sample, report.extra['strata (fill, edit, observation) covered'] = histgraph.stratified(hs, 300 if tier == 'quick' else 4000, common.rng('C06h'), extra=0.0)
    seen = set(map(id, sample))
    sample += [h for h in histgraph.replacement_histories(hs) if id(h) not in seen]      # the whole objective-replacement matrix
    batch = []
    for part in histrun.parallel(c13.replay_chunk, sample):
        batch += part.pop('batch')
        part['violations'], part['counts'] = {}, {}      # the fresh-problem comparison belongs to C13
        report.merge(part)
    validate_traces(report, batch, 'C06 solves after edits', keep=())
    from .. import suitetrace
    suitetrace.validate(report, keep=())
    from .. import apirun
    LP_KEEP[0] = 20 if tier == 'quick' else 3
    apirun.run_config(report, 'MC_C05', observer=lp_observer, report_kinds=(),
                      overrides=None if tier == 'thorough' else {'ObjCands': '<- MC_ObjCandsQ'})
    return report.finish(
        rule='TLC enumerates every complete solve behaviour of MC_Sched without faults (15 methods x strict x 3 models x {no, one} '
             'constraint x every solver outcome class (success, message class, point feasible / violating a constraint / violating a bound) '
             'incl. the SLSQP retry); each is replayed into the real solve() through a stubbed minimize / linprog seam on 2 '
             'concretisations; the recorded executions are validated against TraceSolve.tla (status must be allowed by the outcome; '
             'C06_OptimalFeasible evaluated in every state). Plus generated feasible / infeasible problems x 13 methods with the real SciPy, '
             'recorded and validated the same way; and a seeded sample of the linear problems TLC enumerates for C05 solved on the LP route, every OPTIMAL '
             'point checked against the exact constraint terms and bounds of the spec. distinct_nontrivial = distinct behaviours + problems.',
        exhaustive=True)
