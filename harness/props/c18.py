"""C18 - integrality is never relaxed silently."""
import warnings
from .. import schedrun, histrun, apirun, common, concrete, recorder, scenario, progjudge
from ..common import pviolation, bump
from ..interp import name_of
from .c13 import validate_traces
from .c16 import fbound


def judge(part, b, res, text, site, kind):
    if b['obj'] != 5:
        return
    begin = b['sched'][0]
    out = res['outcome']
    st = schedrun.site_of(b)
    if begin['strict']:
        if out != ('raised', 'IntegerVariableError'):
            pviolation(part, st + '{strict}', 'strict=True does not raise IntegerVariableError (%s %s)' % out, {'behaviour': text, 'concretisation': kind})
    else:
        if out[0] == 'raised' and out[1] == 'IntegerVariableError':
            pviolation(part, st, 'raises IntegerVariableError without strict', {'behaviour': text})


def view_observer(got, pred, sp, call, sg, prog, ctx, part):
    k = pred['kind']
    if not isinstance(sp, dict) or 'bounds' not in sp:
        return
    from optyx.core.expressions import Variable
    if k == 'V':
        elems = list(got)
    elif k == 'M':
        elems = [got[i, j] for i in range(got.rows) for j in range(got.cols)]
    else:
        elems = [got]
    part['evaluations'] += 1
    for v, n, b, d in zip(elems, sp['names'], sp['bounds'], sp['domains']):
        want = (fbound(b[0]), fbound(b[1]))
        have = (None if v.lb is None else float(v.lb), None if v.ub is None else float(v.ub))
        if v.name != name_of(n) or have != want or v.domain != d:
            pviolation(part, sg, 'element reachable through the view does not carry its declared domain / bounds (binary => [0, 1])',
                       {'program': prog, 'element': v.name, 'got': [have, v.domain], 'expected': [want, d]},
                       own=part['_own'], prefixes=part['_prefixes'])
            return


def relax_chunk(idx, items):
    """The relaxed result equals the solve of the same model with continuous domains; the warning names exactly D."""
    import optyx
    part = {'violations': {}, 'counts': {}, 'evaluations': 0, 'traces_validated_against_impl': 0, 'nontrivial': set(),
            'samples': [], 'extra': {}, 'batch': []}
    rec = recorder.Recorder()
    rec.install()
    try:
        for route, dom, method, ncons in items:
            fixed = route.startswith('fixed-')
            frac = route.startswith('frac-')
            route = route.replace('fixed-', '').replace('frac-', '')

            def model(domain):
                x = optyx.Variable('x', lb=0, ub=10)
                ub4 = 1 if dom == 'binary' else 4      # the continuous twin of a binary variable lives in [0, 1]
                if route == 'scalar':
                    ds = [optyx.Variable('d', lb=0, ub=ub4, domain=domain)]
                elif route == 'vector':
                    ds = list(optyx.VectorVariable('d', 2, lb=0, ub=ub4, domain=domain))
                elif route == 'slice':
                    ds = list(optyx.VectorVariable('d', 3, lb=0, ub=ub4, domain=domain)[1:])
                elif route == 'matrix-row':
                    ds = list(optyx.MatrixVariable('D', 2, 2, lb=0, ub=ub4, domain=domain)[0, :])
                elif route == 'transpose-col':
                    ds = list(optyx.MatrixVariable('D', 2, 2, lb=0, ub=ub4, domain=domain).T[:, 1])
                else:
                    ds = list(optyx.MatrixVariable('D', 2, 2, lb=0, ub=ub4, domain=domain, symmetric=True).diagonal())
                if fixed:
                    # bounds coincide (a variable pinned by the user, e.g. during a branch-and-bound dive): still non-continuous
                    for d in ds:
                        d.lb = 1.0 if dom == 'binary' else 2.0
                        d.ub = d.lb
                if frac:
                    # declared bounds need not be whole numbers: the relaxation is over exactly the declared box
                    for d in ds:
                        d.lb, d.ub = (0.2, 0.8) if dom == 'binary' else (0.5, 2.5)
                lin = method in ('linprog', 'highs-ds') or method == 'auto-lp'
                obj = x
                for i, d in enumerate(ds):
                    obj = obj + (2 + i) * d if lin else obj + (d - 1.3 - i) ** 2
                if not lin:
                    obj = obj + (x - 2) ** 2
                p = optyx.Problem().minimize(obj)
                for _ in range(ncons):
                    p.subject_to(x + ds[0] >= 1.5)
                return p, [d.name for d in ds]
            m = 'auto' if method.startswith('auto') else method
            pi, names = model(dom)
            pc, _ = model('continuous')
            st_ = concrete.outcome(lambda: model(dom)[0].solve(method=m, strict=True))
            if st_[:2] != ('raised', 'IntegerVariableError'):
                pviolation(part, 'Relax(%s){strict}' % m, 'strict=True does not raise IntegerVariableError',
                           {'scenario': '%s variables via %s%s, %s, %d constraint(s)' % (dom, 'fixed ' if fixed else '', route, method, ncons), 'observed': str(st_[:2])})
            a = concrete.outcome(lambda: pi.solve(method=m))
            b = concrete.outcome(lambda: pc.solve(method=m))
            part['evaluations'] += 1
            part['traces_validated_against_impl'] += 2
            text = '%s %s via %s%s, %s, %d constraint(s)' % (dom, 'variables', 'fixed ' if fixed else 'fractional-bounds ' if frac else '', route, method, ncons)
            part['nontrivial'].add(text)
            st = 'Relax(%s)' % m
            if a[0] == 'raised' or b[0] == 'raised':
                if a[:2] != b[:2]:
                    pviolation(part, st, 'relaxed solve raises %s' % (a[1] if a[0] == 'raised' else 'nothing while the continuous model raises'), {'scenario': text})
                continue
            d = concrete.compare((a[0], a[1], []), (b[0], b[1], []), tol=1e-5)
            if d:
                pviolation(part, st, 'relaxed result differs from the solve of the continuous model: ' + d.split(':')[0].split('(')[0].strip(), {'scenario': text, 'detail': d})
    finally:
        rec.uninstall()
    part['batch'] = rec.batch()
    return part


def run(report, tier):
    histrun.model_check(report)
    scheds = [b for b in schedrun.schedules(report, overrides={'FaultExcs': '{}'}) if b['obj'] == 5]
    batch = []
    for part in histrun.parallel(schedrun.replay_chunk_factory(('entry',), judge), scheds, chunk=20):
        batch += part.pop('batch')
        part.pop('labels')
        report.merge(part)
    validate_traces(report, batch, 'C18 behaviours', keep=(('namesOK', 'Warn'),))
    # repeated solves of one Problem with non-continuous variables (cache hits): the gate must act on every solve
    from . import c13
    g = histrun.history_graph(report)
    hs = [h for h in g.triples() if sum(1 for o in h if o['op'] == 'Solve') >= 2
          and any(o['op'] == 'SetObjective' and o['obj']['nc'] for o in h) and h[-1]['op'] == 'Solve']
    from .. import histgraph
    sample, report.extra['strata (fill, edit, observation) covered'] = histgraph.stratified(hs, 600 if tier == 'quick' else 5000, common.rng('C18'))
    batch = []
    for part in histrun.parallel(c13.replay_chunk, sample):
        batch += part.pop('batch')
        # the comparison with a fresh problem is C13's; here it only counts when the integrality behaviour differs
        keep = {k: v for k, v in part['violations'].items() if 'IntegerVariableError' in str(v) or 'warning' in k}
        part['counts'] = {k: part['counts'][k] for k in keep}
        part['violations'] = keep
        report.merge(part)
    validate_traces(report, batch, 'C18 repeated solves', keep=(('namesOK', 'Warn'),))
    items = [(r, d, m, n) for r in ('scalar', 'vector', 'slice', 'matrix-row', 'transpose-col', 'sym-diagonal', 'fixed-scalar', 'fixed-vector', 'frac-scalar', 'frac-vector') for d in ('integer', 'binary')
             for m in ('auto', 'auto-lp', 'linprog', 'highs-ds', 'SLSQP', 'trust-constr', 'L-BFGS-B', 'TNC', 'COBYLA', 'Nelder-Mead', 'Powell', 'BFGS')
             for n in (0, 1) if not (m in ('L-BFGS-B', 'TNC', 'Nelder-Mead', 'Powell', 'BFGS') and n)]
    batch = []
    for part in histrun.parallel(relax_chunk, items, chunk=10):
        batch += part.pop('batch')
        report.merge(part)
    validate_traces(report, batch, 'C18 relaxations', keep=(('namesOK', 'Warn'),))
    from .. import suitetrace
    suitetrace.validate(report, keep=(('namesOK', 'Warn'),))
    apirun.run_config(report, 'MC_C18', observer=view_observer, report_kinds=())
    return report.finish(
        rule='(1) every complete solve behaviour of MC_Sched on a model with a non-continuous variable (15 methods x strict x outcomes) replayed '
             'through stubbed seams: strict raises IntegerVariableError before any solver entry, otherwise exactly one warning per gate '
             'passage naming exactly the non-continuous variables (trace validation, C18 invariants in every state); histories of the model graph with '
             'repeated solves (cache hits) of such a model likewise, with the real solvers; (2) integer / binary '
             'declared through 6 routes x 12 methods: the relaxed solve equals the solve of the continuous twin; (3) every view enumerated by '
             'TLC over binary / integer vectors and matrices: each element carries the declared domain and bounds (binary => [0, 1]).',
        exhaustive=True)
