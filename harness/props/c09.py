"""C09 - nonlinear solves are a transparent wrapper over SciPy."""
import warnings
import numpy as np
from fractions import Fraction as Fr
from .. import tlc, tlaparse, common, histrun
from ..common import pviolation, bump

WIDE = (Fr(-2), Fr(4))
DEEP_K = 226          # data points per variable of the deep least-squares objective (2 * 226 > 400 accumulated terms)


def q(x):
    return None if x[1] == 0 else Fr(x[0], x[1])


def load_structures(report):
    wd = tlc.workdir()
    try:
        r = tlc.run('Wiring', wd=wd, dump=True, workers=4)
        report.add_tlc(r)
        out = []
        for txt in tlaparse.iter_states(r.dump):
            st = tlaparse.parse_state(txt)
            out.append({'st': st['st'], 'pred': st['pred']})
        return out
    finally:
        tlc.cleanup(wd)


TABLE = {}


def skey(st):
    return str(sorted((k, str(v)) for k, v in st.items()))


def instance(s, rng):
    """Numbers around a manufactured KKT point x* for one structure (numpy reference, sorted-name order)."""
    st = s['st']
    n = st['n']
    lb0, ub0 = q(st['bp'][0]), q(st['bp'][1])
    olb, oub = {'box': WIDE, 'free': (None, None), 'ub': (None, WIDE[1])}[st['others']]
    lbs = [lb0] + [olb] * (n - 1)
    ubs = [ub0] + [oub] * (n - 1)
    xs = np.zeros(n)
    if st['cons'] == 'bounds_active':
        xs[0] = float(ub0)
    elif lb0 is not None and ub0 is not None:
        xs[0] = float(lb0 + (ub0 - lb0) * Fr(3, 5))
    elif lb0 is not None:
        xs[0] = float(lb0) + 1.3
    elif ub0 is not None:
        xs[0] = float(ub0) - 1.7
    else:
        xs[0] = 0.7
    for i in range(1, n):
        xs[i] = rng.uniform(-1.0, 3.0)
    A = np.array([[rng.uniform(-1, 1) for _ in range(n)] for _ in range(n)])
    Q = A @ A.T + n * np.eye(n)
    data = None
    pair_b = None
    if st['obj'] == 'lsqdeep':
        # f(x) = sum_k (x[i_k] - a_k)**2 / b_k over n * DEEP_K data points, accumulated term by term:
        # = 0.5 (x - c)' Q (x - c) + const with diagonal Q = diag(sum_k 2 / b_k) and c = the weighted mean of the a_k
        pair_b = [[rng.choice([100.0, 200.0, 400.0]) for _ in range(DEEP_K // 2)] for _ in range(n)]
        Q = np.diag([sum(4.0 / b for b in pair_b[i]) for i in range(n)])
    k = np.array([rng.choice([0.3, -0.4, 0.5]) for _ in range(n)]) if st['obj'] == 'nonquad' else np.zeros(n)
    a = np.array([rng.choice([1.0, -1.0, 2.0, 0.5]) for _ in range(n)])
    target = np.zeros(n)
    if st['cons'] == 'ineq_active':
        target = 1.5 * a
    elif st['cons'] == 'eq':
        target = -0.8 * a
    elif st['cons'] == 'bounds_active':
        target[0] = -2.0
    kexp = k * np.exp(k * xs)
    c = xs - np.linalg.solve(Q, target - kexp)
    b = float(a @ xs) - (2.0 if st['cons'] == 'ineq_inactive' else 0.0)
    const0 = 0.0
    if st['obj'] == 'lsqdeep':
        # data points in pairs c_i +- d with the same weight: the centre stays c
        data = []
        for i in range(n):
            for bb in pair_b[i]:
                d = rng.uniform(0.1, 1.0)
                data.append((i, float(c[i] + d), bb))
                data.append((i, float(c[i] - d), bb))
                const0 += 2 * d * d / bb
    f = lambda x: 0.5 * (x - c) @ Q @ (x - c) + (np.sum(np.exp(k * x)) if st['obj'] == 'nonquad' else 0.0) + const0
    g = lambda x: Q @ (x - c) + (k * np.exp(k * x) if st['obj'] == 'nonquad' else 0.0)
    H = lambda x: Q + (np.diag(k * k * np.exp(k * x)) if st['obj'] == 'nonquad' else 0.0)
    return dict(n=n, lbs=lbs, ubs=ubs, xs=xs, Q=Q, k=k, a=a, c=c, b=b, f=f, g=g, H=H, data=data)


def build_optyx(s, ins):
    import optyx
    from optyx.core.matrices import quadratic_form
    st = s['st']
    n = ins['n']
    Q, c, k = ins['Q'], ins['c'], ins['k']
    if st['spell'] == 'vector':
        xv = optyx.VectorVariable('x', n)
        vs = list(xv)
        for i in range(n):
            vs[i].lb = None if ins['lbs'][i] is None else float(ins['lbs'][i])
            vs[i].ub = None if ins['ubs'][i] is None else float(ins['ubs'][i])
        f = 0.5 * quadratic_form(xv - np.asarray(c, dtype=float), Q)
        if st['obj'] == 'nonquad':
            f = f + optyx.exp(np.asarray(k, dtype=float) * xv).sum()
        lhs = np.asarray(ins['a'], dtype=float) @ xv
    else:
        order = list(range(n)) if st['order'] == 'natural' else list(reversed(range(n)))
        vs = [None] * n
        for i in order:      # creation order differs from name order when reversed
            vs[i] = optyx.Variable('x%d' % i, lb=None if ins['lbs'][i] is None else float(ins['lbs'][i]),
                                   ub=None if ins['ubs'][i] is None else float(ins['ubs'][i]))
        f = 0.0
        if st['obj'] == 'lsqdeep':
            for i, a_k, b_k in ins['data']:
                f = f + ((vs[i] - a_k) ** 2) / b_k
        for i in range(n):
            for j in range(n):
                if st['obj'] == 'lsqdeep':
                    break
                f = f + (0.5 * float(Q[i, j])) * ((vs[i] - float(c[i])) * (vs[j] - float(c[j])))
        if st['obj'] == 'nonquad':
            for i in range(n):
                f = f + optyx.exp(float(k[i]) * vs[i])
        lhs = 0.0
        for i in range(n):
            lhs = lhs + float(ins['a'][i]) * vs[i]
    p = optyx.Problem()
    if st['sense'] == 'min':
        p.minimize(f if st['oform'] == 'plain' else 3.0 - (-f))
    else:
        p.maximize(-f if st['oform'] == 'plain' else 3.0 - f)
    if st['cons'] == 'eq':
        p.subject_to(lhs.eq(ins['b']))
    elif st['cons'] in ('ineq_active', 'ineq_inactive'):
        if st['cform'] == 'ge':
            p.subject_to(lhs >= ins['b'])
        elif st['cform'] == 'le_neg':
            p.subject_to((-1.0 * lhs) <= -ins['b'])
        else:
            p.subject_to((ins['b'] - lhs) <= 0)
    return p, [v.name for v in vs]


def chunk(idx, items):
    import optyx.solvers.scipy_solver as ss
    from scipy.optimize import minimize as sp_minimize
    part = {'violations': {}, 'counts': {}, 'evaluations': 0, 'traces_validated_against_impl': 0, 'nontrivial': set(), 'samples': [], 'extra': {}}
    real = ss.minimize
    for s, seed in items:
        st, pred = s['st'], s['pred']
        rng = common.rng('C09/%s/%d' % (sorted(st.items()), seed))
        ins = instance(s, rng)
        prob, names = build_optyx(s, ins)
        cap = []

        def capture(fun, x0, **kw):
            cap.append(dict(kw, fun=fun, x0=np.array(x0, dtype=float)))
            return real(fun, x0, **kw)
        ss.minimize = capture
        try:
            with warnings.catch_warnings():
                warnings.simplefilter('ignore')
                skw = {}
                if st['opts'] == 'nohess_tol':
                    skw = {'use_hessian': False, 'tol': 1e-9}
                elif st['opts'] == 'x0_maxiter':
                    lo = np.array([-np.inf if l is None else float(l) for l in ins['lbs']])
                    hi = np.array([np.inf if u is None else float(u) for u in ins['ubs']])
                    skw = {'x0': np.clip(ins['xs'] + 0.25, lo, hi), 'maxiter': 400}
                try:
                    sol = prob.solve(method=st['m'], **skw)
                except Exception as e:
                    sol = e
        finally:
            ss.minimize = real
        site = 'Solve(%s;%s;%s;%s;%s;%s;%s%s)' % (st['m'], st['obj'], st['cons'], st['sense'], st['spell'], st['cform'], st['oform'], '' if st['opts'] == 'default' else ';' + st['opts'])
        text = {k: (v if not isinstance(v, list) else str(v)) for k, v in st.items()}
        part['evaluations'] += 1
        part['traces_validated_against_impl'] += 1
        part['nontrivial'].add(str(sorted(st.items())))

        def bad(obs, detail=None):
            pviolation(part, site, obs, {'structure': text, 'seed': seed, 'detail': detail})
        if isinstance(sol, Exception):
            bad('solve raises %s' % type(sol).__name__)
            continue
        if not cap:
            bad('the solver seam was never entered')
            continue
        kw = cap[0]
        n = ins['n']
        # (1) what is handed to SciPy
        if st['m'] == 'auto':
            # which method "auto" picks is optyx's business as long as the method supports the problem (AutoNeverUnsupported);
            # the contract for the rest is the one of the method actually chosen
            allowed = ('SLSQP', 'trust-constr') if pred['n_cons'] else ('L-BFGS-B', 'SLSQP', 'trust-constr')
            if kw.get('method') not in allowed:
                bad('auto selects %s, which does not support this problem' % kw.get('method'))
                continue
            pred = TABLE[skey(dict(st, m=kw.get('method')))] if skey(dict(st, m=kw.get('method'))) in TABLE else pred
        if kw.get('method') != pred['method']:
            bad('method handed to SciPy is %s, the contract says %s' % (kw.get('method'), pred['method']))
            continue
        for name, have in (('jac', kw.get('jac') is not None), ('hess', kw.get('hess') is not None), ('bounds', kw.get('bounds') is not None)):
            if have != pred['has_' + name]:
                bad('%s %s handed to the solver' % (name, 'unexpectedly' if have else 'not'))
                break
        else:
            if pred['x0_caller']:
                x0_want = [float(v) for v in skw['x0']]
            else:
                x0_want = [float(Fr(pred['x0'][0], pred['x0'][1]))] + [float(Fr(pred['x0others'][0], pred['x0others'][1]))] * (n - 1)
            if not np.allclose(kw['x0'], x0_want, rtol=0, atol=1e-12):
                bad('starting point differs from %s' % ("the caller's x0" if pred['x0_caller'] else 'the starting-point rule'), {'got': list(map(float, kw['x0'])), 'expected': x0_want})
                continue
            if (kw.get('tol') is not None) != pred['tol_passed'] or (pred['tol_passed'] and kw.get('tol') != skw['tol']):
                bad('tol handed to the solver is not the caller\'s', {'got': kw.get('tol')})
                continue
            have_mi = (kw.get('options') or {}).get('maxiter')
            if (have_mi is not None) != pred['maxiter_passed'] or (pred['maxiter_passed'] and have_mi != skw['maxiter']):
                bad('maxiter handed to the solver is not the caller\'s', {'got': kw.get('options')})
                continue
            if kw.get('bounds') is not None:
                wb = [(-np.inf if l is None else float(l), np.inf if u is None else float(u)) for l, u in zip(ins['lbs'], ins['ubs'])]
                if [tuple(map(float, t)) for t in kw['bounds']] != wb:
                    bad('bounds handed to the solver differ from the declared bounds')
                    continue
            cons = list(kw.get('constraints') or ())
            if len(cons) != pred['n_cons'] or (cons and cons[0]['type'] != pred['con_type']):
                bad('constraints handed to the solver differ from the contract', {'got': [c['type'] for c in cons]})
                continue
            wrong = None
            for x in (ins['xs'], ins['xs'] + 0.37, np.array(x0_want)):
                if abs(float(kw['fun'](x)) - (ins['f'](x) + pred['fun_offset'])) > 1e-8 * (1 + abs(ins['f'](x))):
                    wrong = 'objective handed to the solver is not f (sign or value)'
                elif kw.get('jac') is not None and not np.allclose(np.asarray(kw['jac'](x), dtype=float).reshape(-1), ins['g'](x), rtol=1e-8, atol=1e-8):
                    wrong = 'gradient handed to the solver is not the gradient of f'
                elif kw.get('hess') is not None and not np.allclose(np.asarray(kw['hess'](x), dtype=float), ins['H'](x), rtol=1e-8, atol=1e-8):
                    wrong = 'Hessian handed to the solver is not the Hessian of f'
                elif cons and (abs(float(cons[0]['fun'](x)) - (ins['a'] @ x - ins['b'])) > 1e-9 * (1 + abs(ins['b']))
                               or not np.allclose(np.asarray(cons[0]['jac'](x), dtype=float).reshape(-1), ins['a'], rtol=1e-10, atol=1e-10)):
                    wrong = 'constraint function / Jacobian handed to the solver is not a.x - b / a'
                if wrong:
                    break
            if wrong:
                bad(wrong)
                continue
        # (2) end to end against the direct SciPy call on hand-written callables
        dkw = dict(method=pred['method'], jac=ins['g'] if pred['has_jac'] else None)
        if pred['has_hess']:
            dkw['hess'] = ins['H']
        if pred['has_bounds']:
            dkw['bounds'] = [(-np.inf if l is None else float(l), np.inf if u is None else float(u)) for l, u in zip(ins['lbs'], ins['ubs'])]
        if pred['tol_passed']:
            dkw['tol'] = skw['tol']
        if pred['maxiter_passed']:
            dkw['options'] = {'maxiter': skw['maxiter']}
        if pred['n_cons']:
            dkw['constraints'] = [{'type': pred['con_type'], 'fun': lambda x: ins['a'] @ x - ins['b'], 'jac': lambda x: ins['a']}]
        with warnings.catch_warnings():
            warnings.simplefilter('ignore')
            try:
                d = sp_minimize(ins['f'], np.array(kw['x0'], dtype=float), **dkw)
            except Exception as e:
                bump(part, 'direct_scipy_raises', type(e).__name__)
                continue
        fstar = ins['f'](ins['xs'])
        gap_d = ins['f'](d.x) - fstar
        feas_d = (not pred['n_cons']) or (abs(ins['a'] @ d.x - ins['b']) < 1e-5 if pred['con_type'] == 'eq' else ins['a'] @ d.x - ins['b'] > -1e-5)
        if not (d.success and feas_d and abs(gap_d) < 1e-3 * (1 + abs(fstar))):
            bump(part, 'direct_scipy_did_not_converge')
            continue
        bump(part, 'direct_scipy_converged')
        if sol.status.value != 'optimal':
            bad('direct SciPy converges but optyx reports %s' % sol.status.value, {'message': sol.message})
            continue
        xo = np.array([sol.values[nm] for nm in names])
        gap_o = ins['f'](xo) - fstar
        if gap_o > max(10 * abs(gap_d), 1e-6 * (1 + abs(fstar))):
            bad('objective at the optyx point is further from the known optimum than the direct SciPy call', {'gap_optyx': float(gap_o), 'gap_direct': float(gap_d)})
            continue
        want_obj = (ins['f'](xo) if st['sense'] == 'min' else -ins['f'](xo)) + (0 if st['oform'] == 'plain' else 3.0)
        if abs(sol.objective_value - want_obj) > 1e-7 * (1 + abs(want_obj)):
            bad('reported objective value is not the user objective at the returned point', {'got': sol.objective_value, 'expected': float(want_obj)})
        if len(part['samples']) < 1:
            part['samples'].append({'structure': text, 'x_star': list(map(float, ins['xs'])), 'optyx': sol.values, 'status': sol.status.value})
    return part


def qf_chunk(idx, items):
    """A bare quadratic form x'Qx with a NON-symmetric Q (= x'Sx for the symmetric part S, strictly convex) under sum(x) = 1:
    x* = S^-1 1 / (1' S^-1 1) in closed form.  What the solver is handed must be f and its exact gradient 2 S x."""
    import optyx
    import optyx.solvers.scipy_solver as ss
    from optyx.core.matrices import quadratic_form
    part = {'violations': {}, 'counts': {}, 'evaluations': 0, 'traces_validated_against_impl': 0, 'nontrivial': set(), 'samples': [], 'extra': {}}
    real = ss.minimize
    for n, seed, m, sense in items:
        rng = common.rng('C09qf/%d/%d' % (n, seed))
        A = np.array([[rng.uniform(-1, 1) for _ in range(n)] for _ in range(n)])
        S = A @ A.T + n * np.eye(n)
        K = np.array([[0.0] * n for _ in range(n)])
        for i in range(n):
            for j in range(i + 1, n):
                K[i, j] = rng.uniform(0.5, 2.0)
                K[j, i] = -K[i, j]
        Q = S + K
        one = np.ones(n)
        xs = np.linalg.solve(S, one)
        xs = xs / (one @ xs)
        fstar = float(xs @ S @ xs)
        x = optyx.VectorVariable('x', n, lb=-5, ub=5)
        qf = quadratic_form(x, Q.copy())
        p = optyx.Problem()
        (p.minimize(qf) if sense == 'min' else p.maximize(-qf))
        p.subject_to(x.sum().eq(1.0))
        cap = []

        def capture(fun, x0, **kw):
            cap.append(dict(kw, fun=fun))
            return real(fun, x0, **kw)
        ss.minimize = capture
        try:
            with warnings.catch_warnings():
                warnings.simplefilter('ignore')
                sol = p.solve(method=m)
        finally:
            ss.minimize = real
        site = 'Solve(%s;bare x\'Qx, Q not symmetric;eq;%s)' % (m, sense)
        part['evaluations'] += 1
        part['traces_validated_against_impl'] += 1
        part['nontrivial'].add('%d/%d/%s/%s' % (n, seed, m, sense))
        ex = {'n': n, 'seed': seed, 'x_star': xs.tolist()}
        if cap:
            kw = cap[0]
            for pt in (xs, xs + 0.3, np.arange(1, n + 1) / 3.0):
                if abs(float(kw['fun'](pt)) - float(pt @ S @ pt)) > 1e-9 * (1 + abs(float(pt @ S @ pt))):
                    pviolation(part, site, 'objective handed to the solver is not f (sign or value)', ex)
                    break
                if kw.get('jac') is not None and not np.allclose(np.asarray(kw['jac'](pt), dtype=float).reshape(-1), 2 * S @ pt, rtol=1e-9, atol=1e-9):
                    pviolation(part, site, 'gradient handed to the solver is not the gradient of f', dict(ex, got=np.asarray(kw['jac'](pt), dtype=float).reshape(-1).tolist(), expected=(2 * S @ pt).tolist()))
                    break
                if kw.get('hess') is not None and not np.allclose(np.asarray(kw['hess'](pt), dtype=float), 2 * S, rtol=1e-9, atol=1e-9):
                    pviolation(part, site, 'Hessian handed to the solver is not the Hessian of f', ex)
                    break
        if sol.status.value != 'optimal':
            pviolation(part, site, 'a strictly convex problem with a known optimum is reported %s' % sol.status.value, dict(ex, message=sol.message))
            continue
        xo = np.array([sol.values[v.name] for v in x])
        if float(xo @ S @ xo) - fstar > 1e-6 * (1 + abs(fstar)) or abs(xo.sum() - 1) > 1e-6:
            pviolation(part, site, 'returned point is not the known optimum', dict(ex, got=xo.tolist()))
        want = fstar if sense == 'min' else -fstar
        if abs(sol.objective_value - (float(xo @ S @ xo) if sense == 'min' else -float(xo @ S @ xo))) > 1e-7 * (1 + abs(want)):
            pviolation(part, site, 'reported objective value is not the user objective at the returned point', ex)
    return part


def run(report, tier):
    qitems = [(n, sd, m, sn) for n in (2, 3, 4) for sd in range(3 if tier == 'quick' else 20) for m in ('auto', 'SLSQP', 'trust-constr') for sn in ('min', 'max')]
    for part in histrun.parallel(qf_chunk, qitems, chunk=6):
        report.merge(part)
    structs = load_structures(report)
    for s in structs:
        TABLE[skey(s['st'])] = s['pred']
    rng = common.rng('C09')
    if tier == 'quick':
        # one structure of every (method, options, constraint pattern, bounds of the others, bound pair) stratum, then a seeded fill
        groups = {}
        for s in structs:
            st = s['st']
            groups.setdefault((st['m'], st['opts'], st['cons'], st['others'], str(st['bp']), st['obj'] == 'lsqdeep'), []).append(s)
        sample = [rng.choice(groups[k]) for k in sorted(groups)]
        report.extra['strata (method, options, constraints, other bounds, bound pair, deep objective) all covered'] = len(groups)
        sample += rng.sample(structs, 1200)
        items = [(s, 0) for s in sample]
    else:
        items = [(s, k) for s in structs for k in range(2)]
    for part in histrun.parallel(chunk, items, chunk=8):
        report.merge(part)
    return report.finish(
        rule='Wiring.tla: TLC enumerates every structure (n, objective class, constraint pattern, name order vs creation order, min f / max -f, '
             'method, bounds pattern of the first variable) and computes the wiring contract (method chosen by auto, which of jac / hess / '
             'bounds are handed over, constraint type, exact starting point). For a seeded sample (quick) / every structure x 2 instances '
             '(thorough) numbers are instantiated around a manufactured KKT point; the arguments captured at the minimize seam (method, x0, '
             'bounds, fun / jac / hess and constraint fun / jac at probe points) are compared with the contract and hand-written NumPy '
             'callables; then the same SciPy method is called directly on those callables from the same x0 and, when it converges, optyx '
             'must report OPTIMAL at least as close to the known optimum. Plus a bare quadratic form with a non-symmetric matrix under sum(x) = 1 (closed-form optimum): '
             'objective / gradient / Hessian at the seam and the result, for minimise and maximise of the negation.',
        exhaustive=False)
