"""C02 - the symbolic gradient is the true partial derivative."""
from .. import apirun, progjudge, interp
from ..common import pviolation, bump
from ..interp import name_of, Irregular


def observer(got, pred, sp, call, sg, prog, ctx, part):
    if pred['kind'] != 'S':
        return
    from optyx.core.autodiff import gradient
    den = pred['den']
    D = sp['D']
    used = set(name_of(n) for n in (sp['vars'][1] if isinstance(sp['vars'], tuple) else sp['vars']))

    def bad(obs, detail=None):
        pviolation(part, sg, obs, {'program': prog, 'den': interp.term_str(den), 'detail': detail},
                   own=part['_own'], prefixes=part['_prefixes'])

    pts = [pt for pt in ctx.points if interp.regular_for_derivative(den, pt, ctx.pars)]
    if not pts:
        bump(part, 'cases_without_regular_point_for_derivative')
    for key, dterm in D.items():
        vname = name_of(key)
        var = ctx.varmap[vname]
        try:
            g = gradient(got, var)
        except Exception as e:
            bad('gradient raises %s' % type(e).__name__, {'wrt': vname})
            return
        for pt in (pts if vname in used else ctx.points):
            vals = progjudge.fvals(pt)
            if vname not in used:
                want, tol = 0.0, 0.0
                try:
                    have = progjudge.tofloat(g.evaluate(vals))
                except Exception:
                    continue      # the zero may be expressed through sub-terms undefined at this point
                part['evaluations'] += 1
                if have != 0.0 and have == have:
                    bad('gradient w.r.t. a variable that does not occur is not identically zero', {'wrt': vname, 'got': have})
                    return
                continue
            try:
                want, tol = progjudge.oracle(dterm, pt, ctx.pars)
            except Irregular:
                bump(part, 'points_skipped_irregular')
                continue
            try:
                have = progjudge.tofloat(g.evaluate(vals))
            except Exception as e:
                bad('gradient expression raises %s on evaluation' % type(e).__name__, {'wrt': vname})
                return
            part['evaluations'] += 1
            if not interp.close(have, want, max(tol, ctx.looser * (1 + abs(want)))):
                bad('gradient value differs from the true partial derivative',
                    {'wrt': vname, 'got': have, 'expected': want, 'D': interp.term_str(dterm), 'point': {k: str(v) for k, v in pt.items()}})
                return


def run(report, tier):
    apirun.run_config(report, 'MC_C01', observer=observer, report_kinds=('S',), overrides={'Want': '<-MC_WantD'})
    apirun.run_config(report, 'MC_C01M', observer=observer, report_kinds=('S',), overrides={'Want': '<-MC_WantD'})
    return report.finish(
        rule='every Api program of <= MaxCalls calls of the C01/C02 signature with a scalar result x every declared variable '
             '(occurring or not): gradient(e, v).evaluate(p) at regular rational points vs. the spec derivative D(Den(e), v) '
             '(TLC checks D exact on the rational fragment); non-occurring variables must give exactly 0.',
        exhaustive=True)
