"""C02 - the symbolic gradient is the true partial derivative."""
from .. import apirun, progjudge, interp
from ..common import pviolation, bump
from ..interp import name_of, Irregular


def observer(got, pred, sp, call, sg, prog, ctx, part):
    if pred['kind'] != 'S':
        return
    from optyx.core.autodiff import gradient
    den = pred['den']
    D = sp['D']
    used = set(name_of(n) for n in (sp['vars'][1] if isinstance(sp['vars'], tuple) else sp['vars']))

    def bad(obs, detail=None):
        pviolation(part, sg, obs, {'program': prog, 'den': interp.term_str(den), 'detail': detail},
                   own=part['_own'], prefixes=part['_prefixes'])

    pts = [pt for pt in ctx.points if interp.regular_for_derivative(den, pt, ctx.pars)]
    if not pts:
        bump(part, 'cases_without_regular_point_for_derivative')
    for key, dterm in D.items():
        vname = name_of(key)
        var = ctx.varmap[vname]
        try:
            g = gradient(got, var)
        except Exception as e:
            bad('gradient raises %s' % type(e).__name__, {'wrt': vname})
            return
        for pt in (pts if vname in used else ctx.points):
            vals = progjudge.fvals(pt)
            if vname not in used:
                want, tol = 0.0, 0.0
                try:
                    have = progjudge.tofloat(g.evaluate(vals))
                except Exception:
                    continue      # the zero may be expressed through sub-terms undefined at this point
                part['evaluations'] += 1
                if have != 0.0 and have == have:
                    bad('gradient w.r.t. a variable that does not occur is not identically zero', {'wrt': vname, 'got': have})
                    return
                continue
            try:
                want, tol = progjudge.oracle(dterm, pt, ctx.pars)
            except Irregular:
                bump(part, 'points_skipped_irregular')
                continue
            try:
                have = progjudge.tofloat(g.evaluate(vals))
            except Exception as e:
                bad('gradient expression raises %s on evaluation' % type(e).__name__, {'wrt': vname})
                return
            part['evaluations'] += 1
            if not interp.close(have, want, max(tol, ctx.looser * (1 + abs(want)))):
                bad('gradient value differs from the true partial derivative',
                    {'wrt': vname, 'got': have, 'expected': want, 'D': interp.term_str(dterm), 'point': {k: str(v) for k, v in pt.items()}})
                return
    if ctx.pars:
        param_step(got, den, D, used, ctx, part, bad)
    iterative_engine(got, den, D, used, pts, ctx, part, bad)


def iterative_engine(got, den, D, used, pts, ctx, part, bad):
    """gradient() has two engines (recursive below a depth threshold, an explicit-stack one above it); the second is
    forced on the same small expressions by lowering the threshold from outside: the derivative must be the same one."""
    from optyx.core.autodiff import gradient
    from .c15 import lowered
    for key, dterm in D.items():
        vname = name_of(key)
        if vname not in used:
            continue
        var = ctx.varmap[vname]
        try:
            with lowered(0):
                g = gradient(got, var)
        except Exception as e:
            bad('gradient raises %s on the iterative engine' % type(e).__name__, {'wrt': vname})
            return
        for pt in pts[:3]:
            try:
                want, tol = progjudge.oracle(dterm, pt, ctx.pars)
            except Irregular:
                continue
            try:
                have = progjudge.tofloat(g.evaluate(progjudge.fvals(pt)))
            except Exception as e:
                bad('gradient expression (iterative engine) raises %s on evaluation' % type(e).__name__, {'wrt': vname})
                return
            part['evaluations'] += 1
            if not interp.close(have, want, max(tol, ctx.looser * (1 + abs(want)))):
                bad('gradient value on the iterative engine differs from the true partial derivative',
                    {'wrt': vname, 'got': have, 'expected': want, 'point': {k: str(v) for k, v in pt.items()}})
                return


def param_step(got, den, D, used, ctx, part, bad):
    """The gradient of an expression with parameters is a function of the parameters' CURRENT values: both the
    tree obtained before Parameter.set and a fresh gradient() call (cache hit) are evaluated after the update."""
    from fractions import Fraction as Fr
    from optyx.core.autodiff import gradient
    from .c01 import _pars
    pids = set(_pars(den))
    if not pids:
        return
    for key, dterm in D.items():
        vname = name_of(key)
        if vname not in used:
            continue
        var = ctx.varmap[vname]
        try:
            g_before = gradient(got, var)
        except Exception:
            return
        for pid in pids:
            old = ctx.pars[pid]
            for new in (old + Fr(3, 4), Fr(2), Fr(3)):
                if new == old:
                    continue
                ctx.parobjs[pid].set(float(new))
                try:
                    pars2 = dict(ctx.pars)
                    pars2[pid] = new
                    g_after = gradient(got, var)
                    for pt in ctx.points[:4]:
                        if not interp.regular_for_derivative(den, pt, pars2):
                            continue
                        try:
                            want, tol = progjudge.oracle(dterm, pt, pars2)
                        except Irregular:
                            continue
                        vals = progjudge.fvals(pt)
                        for what, g in (('gradient tree obtained before Parameter.set', g_before), ('gradient() called after Parameter.set', g_after)):
                            have = progjudge.tofloat(g.evaluate(vals))
                            part['evaluations'] += 1
                            if not interp.close(have, want, max(tol, ctx.looser * (1 + abs(want)))):
                                bad('%s does not follow the parameter' % what, {'wrt': vname, 'got': have, 'expected': want, 'parameter': float(new),
                                                                                 'point': {k: str(v) for k, v in pt.items()}})
                                return
                except Exception as e:
                    bad('gradient raises %s after Parameter.set' % type(e).__name__, {'wrt': vname})
                    return
                finally:
                    ctx.parobjs[pid].set(float(old))


def run(report, tier):
    apirun.run_config(report, 'MC_C01', observer=observer, report_kinds=('S',), overrides={'Want': '<-MC_WantD'})
    apirun.run_config(report, 'MC_C01M', observer=observer, report_kinds=('S',), overrides={'Want': '<-MC_WantD'})
    if tier == 'thorough':      # one call deeper over a reduced alphabet (3 functions, 2 literals, operators + * **)
        apirun.run_config(report, 'MC_C01', observer=observer, report_kinds=('S',), overrides=dict({'MaxCalls': 3, 'Fns': '<-MC_FnsSmall', 'ScalarLits': '<-MC_ScalarLitsSmall', 'SOps': '<-MC_SOpsSmall', 'VOps': '<-MC_VOpsSmall', 'Indices': '<-MC_IndicesSmall'}, Want='<-MC_WantD'), tag='deep')
    return report.finish(
        rule='every Api program of <= MaxCalls calls of the C01/C02 signature with a scalar result x every declared variable '
             '(occurring or not): gradient(e, v).evaluate(p) at regular rational points vs. the spec derivative D(Den(e), v) '
             '(TLC checks D exact on the rational fragment); non-occurring variables must give exactly 0; for programs with a parameter, the '
             'gradient tree obtained before Parameter.set and a fresh gradient() call are both evaluated after the update.',
        exhaustive=True)
