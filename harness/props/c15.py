"""C15 - results do not depend on depth or association of the expression tree."""
import sys, time, warnings
import numpy as np
from .. import apirun, progjudge, interp, common, histrun
from ..common import pviolation, bump
from ..interp import name_of, Irregular
from .c03 import setof


class lowered:
    """All four switch thresholds lowered from outside, so that small chains take the iterative algorithms."""

    def __init__(self, k):
        self.k = k

    def __enter__(self):
        from optyx.core import compiler, autodiff, expressions
        from optyx import analysis
        self.mods = [compiler, autodiff, expressions, analysis]
        self.saved = [m._RECURSION_THRESHOLD for m in self.mods]
        for m in self.mods:
            m._RECURSION_THRESHOLD = self.k
        compiler._compile_cached.cache_clear()
        autodiff._gradient_cached.cache_clear()

    def __exit__(self, *a):
        from optyx.core import compiler, autodiff
        for m, v in zip(self.mods, self.saved):
            m._RECURSION_THRESHOLD = v
        compiler._compile_cached.cache_clear()
        autodiff._gradient_cached.cache_clear()


def observer(got, pred, sp, call, sg, prog, ctx, part):
    """Every observable of the chain on the iterative algorithms must equal the denotation (which the
    recursive algorithms are checked against by C01-C04): hence iterative = recursive = any association."""
    if pred['kind'] != 'S':
        return
    from optyx.core import compiler, autodiff, expressions
    from optyx import analysis
    from . import c04
    den = pred['den']
    names = sorted(name_of(n) for n in setof(sp['vars']))
    vm = ctx.varmap
    D = {name_of(k): v for k, v in sp['D'].items()}
    pts = [pt for pt in ctx.points if interp.regular_for_derivative(den, pt, ctx.pars)][:2]

    def bad(obs, detail=None):
        pviolation(part, sg, obs, {'program': prog, 'den': interp.term_str(den), 'detail': detail}, own=part['_own'], prefixes=part['_prefixes'])

    for k in (0, 2, -1):
        e = c04.fresh(ctx, ctx.cur_calls)          # fresh nodes: no per-node caches from the other regime
        if k == -1:
            # every sub-expression classified (recursively) before the parent is analysed iteratively
            stack = [e]
            seen = set()
            while stack:
                o = stack.pop()
                if id(o) in seen:
                    continue
                seen.add(id(o))
                for attr in ('left', 'right', 'operand'):
                    ch = getattr(o, attr, None)
                    if ch is not None and hasattr(ch, 'degree'):
                        stack.append(ch)
                if o is not e and hasattr(o, 'degree'):
                    try:
                        o.degree
                    except Exception:
                        pass
            k = 0
        vm2 = apirun.varmap(ctx.cur_objs)
        with lowered(k):
            tag = 'thresholds=%d' % k
            try:
                vs = sorted(v.name for v in expressions.get_all_variables(e))
            except Exception as ex:
                bad('variable discovery raises %s on the iterative path' % type(ex).__name__, tag)
                return
            if vs != names:
                bad('variable discovery differs between the iterative and the recursive algorithm', {'got': vs, 'expected': names, 'regime': tag})
                return
            try:
                d = analysis.compute_degree(e)
            except Exception as ex:
                bad('degree raises %s on the iterative path' % type(ex).__name__, tag)
                return
            truth = sp['deg']
            if d is not None and truth >= 0 and d < truth:
                bad('iterative degree is smaller than the true degree', {'claimed': d, 'true': truth, 'regime': tag})
                return
            vars_ = [vm[n] for n in names]
            try:
                f = compiler.compile_expression(got, vars_)
                gs = [autodiff.gradient(got, v) for v in vars_]
                # a variable is identified by its name on every path: differentiating with respect to another
                # Variable object of the same name is the same question
                import optyx
                gs_twin = [autodiff.gradient(got, optyx.Variable(v.name, lb=v.lb, ub=v.ub, domain=v.domain)) for v in vars_]
                cg = compiler.compile_gradient(got, vars_)
            except Exception as ex:
                bad('%s on the iterative path although the shallow tree is supported' % type(ex).__name__, tag)
                return
            for pt in pts:
                try:
                    wv, tv = progjudge.oracle(den, pt, ctx.pars)
                    wg = [progjudge.oracle(D[n], pt, ctx.pars) for n in names]
                except Irregular:
                    continue
                x = np.array([float(pt[n]) for n in names], dtype=float)
                vals = progjudge.fvals(pt)
                try:
                    hv = progjudge.tofloat(f(x))
                    hg = [progjudge.tofloat(g.evaluate(vals)) for g in gs]
                    ht = [progjudge.tofloat(g.evaluate(vals)) for g in gs_twin]
                    hc = list(np.asarray(cg(x), dtype=float).reshape(-1))
                except Exception as ex:
                    bad('callable built on the iterative path raises %s' % type(ex).__name__, tag)
                    return
                part['evaluations'] += 1
                if not interp.close(hv, wv, tv):
                    bad('compiled value on the iterative path differs from the formula', {'got': hv, 'expected': wv, 'regime': tag})
                    return
                for n, a, (w, t) in zip(names, ht, wg):
                    if not interp.close(a, w, t):
                        bad('gradient w.r.t. an equal-named Variable object differs on the iterative path', {'wrt': n, 'got': a, 'expected': w, 'regime': tag})
                        return
                for n, a, b, (w, t) in zip(names, hg, hc, wg):
                    if not interp.close(a, w, t) or not interp.close(float(b), w, t):
                        bad('gradient on the iterative path differs from the true derivative', {'wrt': n, 'symbolic': a, 'compiled': float(b), 'expected': w, 'regime': tag})
                        return


# ------------------------------------------------------------------ real depth
def deep_case(args):
    """One accumulation of n terms with the default thresholds, against the vectorised / closed form."""
    kind, op, n, base = args
    import optyx
    from optyx.core import compiler, autodiff, expressions
    from optyx import analysis
    res = {'case': '%s %s n=%d base=%s' % (kind, op, n, base), 'bad': None, 'wall': 0.0}
    t0 = time.time()
    try:
        x = optyx.VectorVariable('x', n, lb=0.5, ub=2.0)
        xs = list(x)
        vals = {v.name: 1.0 + (i % 7) / 16.0 for i, v in enumerate(xs)}
        xv = np.array([vals[v.name] for v in xs])
        F = {'var': (lambda v: v, lambda a: a, lambda a: np.ones_like(a)),
             'atan': (optyx.atan, np.arctan, lambda a: 1 / (1 + a * a)),
             'sqrt': (optyx.sqrt, np.sqrt, lambda a: 0.5 / np.sqrt(a)),
             'log10': (optyx.log10, np.log10, lambda a: 1 / (a * np.log(10.0))),
             'asinh': (optyx.asinh, np.arcsinh, lambda a: 1 / np.sqrt(1 + a * a))}[base]
        terms = [F[0](v) for v in xs]
        tv = F[1](xv)
        td = F[2](xv)
        acc = terms[0]
        for t in terms[1:]:
            acc = {'+': acc + t, '-': acc - t, '*': acc * t, '/': acc / t}[op]
        if op == '+':
            want, grad = tv.sum(), td
        elif op == '-':
            want, grad = tv[0] - tv[1:].sum(), np.concatenate([[td[0]], -td[1:]])
        elif op == '*':
            want = np.prod(tv)
            grad = want / tv * td
        else:
            want = tv[0] / np.prod(tv[1:])
            grad = np.concatenate([[td[0] / np.prod(tv[1:])], -want / tv[1:] * td[1:]])
        if kind in ('variables', 'degree', 'gradient'):
            vs = expressions.get_all_variables(acc)
            if sorted(v.name for v in vs) != sorted(vals):
                res['bad'] = 'variable discovery misses variables on a deep tree'
            # a function / negation applied on top of the whole accumulation is still the same set of variables
            # (objectives like sqrt(sum of squares) or -(sum) are written this way)
            if res['bad'] is None and op in '+*':
                for wname, wrapped in (('neg', -acc), ('sqrt', optyx.sqrt(acc)), ('tanh', optyx.tanh(acc * 1e-3))):
                    ws = expressions.get_all_variables(wrapped)
                    pv = optyx.Problem().minimize(wrapped).variables
                    if sorted(v.name for v in ws) != sorted(vals) or len(pv) != n:
                        res['bad'] = 'variable discovery misses variables when %s() is applied to a deep accumulation (%d / %d of %d found)' % (wname, len(ws), len(pv), n)
                        break
            d = analysis.compute_degree(acc)
            true_deg = (1 if op in '+-' else (n if op == '*' else None)) if base == 'var' else None
            if res['bad'] is None and d is not None and (true_deg is None or d < true_deg):
                res['bad'] = 'degree %r on a deep tree, true %r' % (d, true_deg)
            if res['bad'] is None:
                for i in (0, n // 2, n - 1):
                    g = autodiff.gradient(acc, xs[i])
                    if kind == 'gradient' and n <= 900:
                        have = float(np.asarray(g.evaluate(vals)))
                        if abs(have - grad[i]) > 1e-7 * (1 + abs(grad[i])):
                            res['bad'] = 'gradient of a deep tree differs from the closed form (i=%d: %r vs %r)' % (i, have, grad[i])
                            break
        if kind == 'shared' and res['bad'] is None:
            # the same accumulation over FEW variables: x0**2 - c1*x1 - c2*x2 - c3*x0 - ... (every variable recurs), against the
            # closed form and against the other association (x0**2 - (sum of the linear terms))
            m = 3
            ys = xs[:m]
            cs = [1.0 + (i % 5) * 0.5 for i in range(n)]
            acc2 = ys[0] ** 2
            for i in range(n):
                acc2 = (acc2 - cs[i] * ys[i % m]) if op == '-' else (acc2 + cs[i] * ys[i % m])
            sign = -1.0 if op == '-' else 1.0
            lin = [sign * sum(c for i, c in enumerate(cs) if i % m == j) for j in range(m)]
            y0 = {v.name: 0.75 + 0.5 * j for j, v in enumerate(ys)}
            wantg = [2 * y0[ys[0].name] + lin[0], lin[1], lin[2]]
            for j in range(m):
                have = float(np.asarray(autodiff.gradient(acc2, ys[j]).evaluate(y0)))
                if abs(have - wantg[j]) > 1e-9 * (1 + abs(wantg[j])):
                    res['bad'] = 'gradient of an accumulation over recurring variables differs from the closed form (d/d%s: %r vs %r)' % (ys[j].name, have, wantg[j])
                    break
            if res['bad'] is None:
                cg = np.asarray(compiler.compile_gradient(acc2, ys)(np.array([y0[v.name] for v in ys])), dtype=float).reshape(-1)
                if np.max(np.abs(cg - np.array(wantg))) > 1e-9 * (1 + np.max(np.abs(wantg))):
                    res['bad'] = 'compiled gradient of an accumulation over recurring variables differs from the closed form'
        if kind == 'compile' and res['bad'] is None:
            f = compiler.compile_expression(acc, xs)
            have = float(np.asarray(f(xv)))
            if abs(have - want) > 1e-8 * (1 + abs(want)):
                res['bad'] = 'compiled value of a deep tree differs from the closed form (%r vs %r)' % (have, want)
            have = float(np.asarray(acc.evaluate(vals)))
            if res['bad'] is None and abs(have - want) > 1e-8 * (1 + abs(want)):
                res['bad'] = 'evaluate of a deep tree differs from the closed form'
            if res['bad'] is None and op in '+-':
                cg = np.asarray(compiler.compile_gradient(acc, xs)(xv), dtype=float).reshape(-1)
                if np.max(np.abs(cg - grad)) > 1e-7 * (1 + np.max(np.abs(grad))):
                    res['bad'] = 'compiled gradient of a deep tree differs from the closed form'
        if kind == 'solve' and res['bad'] is None:
            with warnings.catch_warnings():
                warnings.simplefilter('ignore')
                if base == 'var':
                    # linear: deep objective and deep constraint against the vectorised build
                    c = np.array([1.0 + (i % 5) for i in range(n)])
                    lin = xs[0] * float(c[0])
                    for i in range(1, n):
                        lin = lin + xs[i] * float(c[i])
                    s = optyx.Problem().minimize(lin).subject_to(lin >= 0.75 * float(c.sum())).solve()
                    t = optyx.Problem().minimize(c @ x).subject_to(c @ x >= 0.75 * float(c.sum())).solve()
                    if s.status != t.status or (s.objective_value is not None and abs(s.objective_value - t.objective_value) > 1e-6 * (1 + abs(t.objective_value))):
                        res['bad'] = 'solve of the deep build differs from the vectorised build (%s %r vs %s %r)' % (s.status.value, s.objective_value, t.status.value, t.objective_value)
                else:
                    # increasing terms on [0.5, 2]: the minimum of the deep sum is at the lower bounds
                    s = optyx.Problem().minimize(acc).solve()
                    want_obj = float(n * F[1](np.array([0.5]))[0])
                    if s.status.value != 'optimal' or abs(s.objective_value - want_obj) > 1e-4 * (1 + abs(want_obj)):
                        res['bad'] = 'solve of a deep nonlinear sum misses the known optimum (%s %r vs %r)' % (s.status.value, s.objective_value, want_obj)
    except RecursionError:
        res['bad'] = 'RecursionError escapes within the supported depth'
    except Exception as e:
        res['bad'] = '%s on a deep tree although shallow trees are supported' % type(e).__name__
    res['wall'] = time.time() - t0
    return res


def deep_chunk(idx, items):
    part = {'violations': {}, 'counts': {}, 'evaluations': 0, 'traces_validated_against_impl': 0, 'nontrivial': set(), 'samples': [], 'extra': {}}
    for a in items:
        r = deep_case(a)
        part['evaluations'] += 1
        part['nontrivial'].add(r['case'])
        if r['bad']:
            pviolation(part, 'Deep(%s;%s;base=%s)' % (a[0], a[1], a[3]), r['bad'].split('(')[0].strip(), {'case': r['case'], 'detail': r['bad']})
    return part


def run(report, tier):
    apirun.run_config(report, 'MC_C15', observer=observer, report_kinds=())
    apirun.run_config(report, 'MC_C15b', observer=observer, report_kinds=(), overrides=None if tier == 'quick' else {'MaxCalls': 3, 'SOps': '{"+", "*", "-"}'})
    items = []
    for base in ('var', 'atan', 'sqrt', 'log10', 'asinh'):
        for op in '+-*/':
            for n in (399, 400, 401, 900):
                items.append(('compile', op, n, base))
            for n in ((1000, 5000) if tier == 'quick' else (1000, 5000, 20000)):
                if op in '+-' or n <= 1000:
                    items.append(('gradient', op, n, base))
        items.append(('solve', '+', 401 if tier == 'quick' else 900, base))
        items.append(('gradient', '+', 900, base))
    for n in (8, 120, 600):
        for op in '+-':
            items.append(('shared', op, n, 'var'))
    for part in histrun.parallel(deep_chunk, items, chunk=3):
        report.merge(part)
    return report.finish(
        rule='(i) small scope: every pair of base-term kinds (18 functions, every vector / matrix reduction node, a parameter) x 4 operators, and every '
             '3-term chain in every association over 8 kinds (TLC BFS), with the four switch thresholds lowered from outside to 0 and 2: '
             'variable discovery, degree, symbolic gradient, compiled value and compiled gradient on the iterative algorithms against the '
             'denotation (to which C01-C04 bind the recursive algorithms); (ii) real depth with default thresholds: accumulations of 399 / 400 / '
             '401 / 900 terms (compile, evaluate, solve; deep objective and deep constraint) and 1000 / 5000 (/ 20000) terms (variables, degree, '
             'gradient) for 5 base kinds x 4 operators against closed forms / the vectorised build.',
        exhaustive=False)
