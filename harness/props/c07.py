"""C07 - reported objective value and variable values are self-consistent."""
import numpy as np
from .. import schedrun, histrun, apirun, common, progjudge
from ..common import pviolation, bump
from ..interp import name_of
from .c13 import validate_traces


def judge(part, b, res, text, site, kind):
    pass      # the recorder's objOK / keysOK flags are judged by the trace spec


def handle_observer(got, pred, sp, call, sg, prog, ctx, part):
    """Solution[handle] returns the values of exactly the variables the handle denotes, in position."""
    from optyx.solution import Solution, SolverStatus
    k = pred['kind']
    if k not in ('V', 'M') and not (k == 'S' and pred['den']['k'] == 'var'):
        return
    vals = {name_of(n): float(i) + 0.25 for i, n in enumerate(sorted(ctx.all_names))}
    sol = Solution(status=SolverStatus.OPTIMAL, objective_value=0.0, values=vals)
    try:
        have = sol[got]
        dflt = sol.get(got)
    except Exception as e:
        pviolation(part, sg, 'Solution[handle] raises %s' % type(e).__name__, {'program': prog}, own=part['_own'], prefixes=part['_prefixes'])
        return
    part['evaluations'] += 1
    if k == 'S':
        want = vals[name_of(pred['den']['n'])]
        ok = float(have) == want
    elif k == 'V':
        want = [vals[name_of(n)] for n in pred['names']]
        ok = np.asarray(have).shape == (len(want),) and list(map(float, have)) == want
    else:
        want = [[vals[name_of(n)] for n in r] for r in pred['names']]
        ok = np.asarray(have).shape == (len(want), len(want[0])) and np.asarray(have).tolist() == want
    if not ok or not np.array_equal(np.asarray(have), np.asarray(dflt)):
        pviolation(part, sg, 'Solution[handle] differs from the values of the variables the handle denotes',
                   {'program': prog, 'got': np.asarray(have).tolist(), 'expected': want}, own=part['_own'], prefixes=part['_prefixes'])


def run(report, tier):
    histrun.model_check(report)
    scheds = schedrun.schedules(report, overrides={'FaultExcs': '{}', 'Senses': '{"minimize", "maximize"}', 'SchedObjs': '<-MC_ObjsC07'})
    # only behaviours that end with values and an objective value matter here
    scheds = [b for b in scheds if any(e['e'] == 'ret' for e in b['sched'])]
    batch = []
    for part in histrun.parallel(schedrun.replay_chunk_factory(('entry',), judge), scheds, chunk=20):
        batch += part.pop('batch')
        part.pop('labels')
        report.merge(part)
    validate_traces(report, batch, 'C07 stubbed outcomes', keep=('objOK', 'keysOK'))
    # repeated and re-routed solves (cache hits, edits in between): histories of the Solve model graph, real solvers
    from . import c13
    g = histrun.history_graph(report)
    rng = common.rng('C07')
    hs = [h for h in g.triples() if sum(1 for o in h if o['op'] == 'Solve') >= 2]
    from .. import histgraph
    sample, report.extra['strata (fill, edit, observation) covered'] = histgraph.stratified(hs, 500 if tier == 'quick' else 5000, rng)
    batch = []
    for part in histrun.parallel(c13.replay_chunk, sample):
        batch += part.pop('batch')
        part['violations'], part['counts'] = {}, {}      # fresh-problem comparison belongs to C13; here only the recorded observations count
        report.merge(part)
    validate_traces(report, batch, 'C07 repeated solves', keep=('objOK', 'keysOK'))
    from .. import suitetrace
    suitetrace.validate(report, keep=('objOK', 'keysOK'))
    apirun.run_config(report, 'MC_C11M', observer=handle_observer, report_kinds=(), overrides={'MaxCalls': 1})
    return report.finish(
        rule='every complete solve behaviour of MC_Sched (minimise and maximise; quadratic, linear-with-constant and non-polynomial '
             'objectives; 15 methods; all outcome classes) replayed through stubbed seams returning chosen points: the recorder evaluates '
             'the user objective at the returned values (objOK) and compares the keys with the variables occurring (keysOK); TraceSolve '
             'rejects a trace whose flag is false; histories with repeated solves of one Problem (cache hits, edits in between) from the model graph '
             'with the real solvers likewise. Plus Solution[handle] / Solution.get for every scalar / vector / matrix view '
             'enumerated by TLC over MC_C11M against the names the spec gives the view.',
        exhaustive=True)
