"""C07 - reported objective value and variable values are self-consistent."""
import numpy as np
from .. import schedrun, histrun, apirun, common, progjudge
from ..common import pviolation, bump
from ..interp import name_of
from .c13 import validate_traces


def judge(part, b, res, text, site, kind):
    pass      # the recorder's objOK / keysOK flags are judged by the trace spec


def handle_observer(got, pred, sp, call, sg, prog, ctx, part):
    """Solution[handle] returns the values of exactly the variables the handle denotes, in position."""
    from optyx.solution import Solution, SolverStatus
    k = pred['kind']
    if k not in ('V', 'M') and not (k == 'S' and pred['den']['k'] == 'var'):
        return
    vals = {name_of(n): float(i) + 0.25 for i, n in enumerate(sorted(ctx.all_names))}
    sol = Solution(status=SolverStatus.OPTIMAL, objective_value=0.0, values=vals)
    try:
        have = sol[got]
        dflt = sol.get(got)
    except Exception as e:
        pviolation(part, sg, 'Solution[handle] raises %s' % type(e).__name__, {'program': prog}, own=part['_own'], prefixes=part['_prefixes'])
        return
    part['evaluations'] += 1
    if k == 'S':
        want = vals[name_of(pred['den']['n'])]
        ok = float(have) == want
    elif k == 'V':
        want = [vals[name_of(n)] for n in pred['names']]
        ok = np.asarray(have).shape == (len(want),) and list(map(float, have)) == want
    else:
        want = [[vals[name_of(n)] for n in r] for r in pred['names']]
        ok = np.asarray(have).shape == (len(want), len(want[0])) and np.asarray(have).tolist() == want
    if not ok or not np.array_equal(np.asarray(have), np.asarray(dflt)):
        pviolation(part, sg, 'Solution[handle] differs from the values of the variables the handle denotes',
                   {'program': prog, 'got': np.asarray(have).tolist(), 'expected': want}, own=part['_own'], prefixes=part['_prefixes'])


def all_handles_observer(got, pred, sp, call, sg, prog, ctx, part):
    """One Solution object, every vector / matrix handle of the program (the base heap holds several views that optyx
    gives the same display name) looked up on it one after the other, in both orders: each lookup returns the values of
    the variables THAT handle denotes."""
    handle_observer(got, pred, sp, call, sg, prog, ctx, part)
    if pred['kind'] not in ('V', 'M'):
        return
    from optyx.solution import Solution, SolverStatus
    vals = {name_of(n): float(i) + 0.25 for i, n in enumerate(sorted(ctx.all_names))}
    hs = [h for h in sorted(ctx.cur_objs) if h <= len(ctx.cur_heap) and ctx.cur_heap[h - 1]['kind'] in ('V', 'M') and not ctx.cur_heap[h - 1].get('may')]
    for order in (hs, list(reversed(hs))):
        sol = Solution(status=SolverStatus.OPTIMAL, objective_value=0.0, values=dict(vals))
        for h in order:
            o = ctx.cur_heap[h - 1]
            try:
                have = np.asarray(sol[ctx.cur_objs[h]], dtype=float)
            except Exception as e:
                pviolation(part, sg, 'Solution[handle] raises %s after other handles were looked up' % type(e).__name__, {'program': prog, 'handle': h},
                           own=part['_own'], prefixes=part['_prefixes'])
                return
            part['evaluations'] += 1
            want = [vals[name_of(n)] for n in o['names']] if o['kind'] == 'V' else [[vals[name_of(n)] for n in r] for r in o['names']]
            if have.shape != np.asarray(want).shape or have.tolist() != want:
                pviolation(part, sg, 'Solution[handle] returns another handle\'s values when several handles are looked up on one Solution',
                           {'program': prog, 'handle': 'h%d' % h, 'lookup_order': ['h%d' % x for x in order], 'got': have.tolist(), 'expected': want},
                           own=part['_own'], prefixes=part['_prefixes'])
                return


def run(report, tier):
    histrun.model_check(report)
    scheds = schedrun.schedules(report, overrides={'FaultExcs': '{}', 'Senses': '{"minimize", "maximize"}', 'SchedObjs': '<-MC_ObjsC07'})
    # only behaviours that end with values and an objective value matter here
    scheds = [b for b in scheds if any(e['e'] == 'ret' for e in b['sched'])]
    batch = []
    for part in histrun.parallel(schedrun.replay_chunk_factory(('entry',), judge), scheds, chunk=20):
        batch += part.pop('batch')
        part.pop('labels')
        report.merge(part)
    validate_traces(report, batch, 'C07 stubbed outcomes', keep=('objOK', 'keysOK'))
    # repeated and re-routed solves (cache hits, edits in between): histories of the Solve model graph, real solvers
    from . import c13
    g = histrun.history_graph(report)
    rng = common.rng('C07')
    hs = [h for h in g.triples() if sum(1 for o in h if o['op'] == 'Solve') >= 2]
    from .. import histgraph
    sample, report.extra['strata (fill, edit, observation) covered'] = histgraph.stratified(hs, 500 if tier == 'quick' else 5000, rng)
    batch = []
    for part in histrun.parallel(c13.replay_chunk, sample):
        batch += part.pop('batch')
        part['violations'], part['counts'] = {}, {}      # fresh-problem comparison belongs to C13; here only the recorded observations count
        report.merge(part)
    validate_traces(report, batch, 'C07 repeated solves', keep=('objOK', 'keysOK'))
    from .. import suitetrace
    suitetrace.validate(report, keep=('objOK', 'keysOK'))
    apirun.run_config(report, 'MC_C11M', observer=all_handles_observer, report_kinds=(), overrides={'MaxCalls': 1})
    apirun.run_config(report, 'MC_C11', observer=all_handles_observer, report_kinds=(), overrides={'MaxCalls': 1}, tag='vec')
    return report.finish(
        rule='every complete solve behaviour of MC_Sched (minimise and maximise; quadratic, linear-with-constant and non-polynomial '
             'objectives; 15 methods; all outcome classes) replayed through stubbed seams returning chosen points: the recorder evaluates '
             'the user objective at the returned values (objOK) and compares the keys with the variables occurring (keysOK); TraceSolve '
             'rejects a trace whose flag is false; histories with repeated solves of one Problem (cache hits, edits in between) from the model graph '
             'with the real solvers likewise. Plus Solution[handle] / Solution.get for every scalar / vector / matrix view '
             'enumerated by TLC over MC_C11M / MC_C11 against the names the spec gives the view, singly and with all handles of the program looked up on '
             'one Solution in both orders (views with equal display names).',
        exhaustive=True)
