"""C14 - independent models do not interfere through process-wide caches."""
import json, os, subprocess, sys, warnings
import numpy as np
from .. import tlc, tlaparse, common, histrun
from ..common import pviolation, bump

PM, PN = 1.5, 7.0
CVEC = np.array([1.0, 2.0, 4.0])
VIEW_GRAD = {'M': [2.0, 3.0, 5.0], 'N': [5.0, 3.0, 2.0]}      # d(c @ view + view.sum()) / d v[i]
X0 = 0.5
FRESH = r'''
import sys, json
sys.path.insert(0, sys.argv[1]); sys.path.insert(0, sys.argv[2])
from harness.props import c14
import warnings; warnings.simplefilter('ignore')
w = c14.World(only_m=True)
print(json.dumps(c14.observe_m(w)))
'''


class World:
    def __init__(self, only_m=False):
        import optyx
        from optyx.core.parameters import Parameter
        if not only_m:
            # N is written first, with NumPy-typed literals where M uses plain Python numbers of equal value: how one model
            # spells a number must not change what the other model's literal is
            self.xN = optyx.Variable('x', lb=-5, ub=1)
            self.yN = optyx.Variable('y', lb=-5, ub=1)
            self.litN = self.xN ** np.int64(2) + np.float64(3.0) * self.yN + np.int64(1) + optyx.sin(np.float32(2.0)) * self.xN
        self.pM = Parameter('p', PM)
        self.xM = optyx.Variable('x', lb=0, ub=4)
        self.yM = optyx.Variable('y', lb=0, ub=4)
        self.nM = self.pM * self.xM + self.xM ** 2
        self.hM = self.pM * self.xM * self.yM + self.xM ** 2 + self.yM ** 2      # mixed Hessian entry = the parameter leaf
        self.pN = Parameter('p', PN)
        if only_m:
            self.xN = optyx.Variable('x', lb=-5, ub=1)
            self.yN = optyx.Variable('y', lb=-5, ub=1)
        self.nN = self.pN * self.xN - self.xN
        self.hN = self.pN * self.xN * self.yN - self.yN ** 2
        # same-named vectors in the two models, used through views that optyx gives the same display name ("v[0:3]")
        # although they list the elements in different orders
        self.vM = optyx.VectorVariable('v', 3, lb=0, ub=4)
        self.vN = optyx.VectorVariable('v', 3, lb=-5, ub=1)
        self.viewM = CVEC @ self.vM[:] + self.vM[:].sum()
        self.viewN = CVEC @ self.vN[::-1] + self.vN[::-1].sum()
        self.obj = {1: self.pM, 2: self.xM, 3: self.nM, 4: self.pN, 5: self.xN, 6: self.nN}
        self.var = {1: self.xM, 2: self.xM, 3: self.xM, 4: self.xN, 5: self.xN, 6: self.xN}
        self.nfill = 0


def expected(i, what):
    p = PM if i <= 3 else PN
    if what == 'compile':
        return {1: PM, 2: X0, 3: PM * X0 + X0 ** 2, 4: PN, 5: X0, 6: PN * X0 - X0}[i]
    return PM + 2 * X0 if i == 3 else PN - 1


def do(w, op):
    """Execute one abstract cache operation; -> None or a description of the cross-talk observed."""
    from optyx.core import compiler, autodiff
    kind, arg = op
    x = np.array([X0])
    if kind == 'Compile':
        have = float(np.asarray(compiler.compile_expression(w.obj[arg], [w.var[arg]])(x)))
        want = expected(arg, 'compile')
        return None if abs(have - want) <= 1e-12 else 'compiled callable of %s returns %r, expected %r' % (name(arg), have, want)
    if kind == 'GradCompile':
        g = np.asarray(compiler.compile_gradient(w.obj[arg], [w.var[arg]])(x), dtype=float).reshape(-1)[0]
        j = np.asarray(autodiff.compile_jacobian([w.obj[arg]], [w.var[arg]])(x), dtype=float).reshape(-1)[0]
        want = expected(arg, 'grad')
        for what, have in (('compile_gradient', g), ('compile_jacobian', j)):
            if abs(have - want) > 1e-12:
                return '%s of %s returns %r, expected %r' % (what, name(arg), have, want)
        d = view_gradient(w, 'M' if arg == 3 else 'N')
        if d:
            return d
        return None
    if kind == 'HessCompile':
        e, vs, p = (w.hM, [w.xM, w.yM], PM) if arg == 3 else (w.hN, [w.xN, w.yN], PN)
        H = np.asarray(autodiff.compile_hessian(e, vs)(np.array([X0, 0.25])), dtype=float)
        if abs(H[0, 1] - p) > 1e-12 or abs(H[1, 0] - p) > 1e-12:
            return 'compile_hessian of %s returns mixed entry %r, expected %r' % ('M' if arg == 3 else 'N', float(H[0, 1]), p)
        return None
    # Fill: push more unrelated expressions through the caches than they can hold
    import optyx
    k = w.nfill
    w.nfill += 1
    v = optyx.Variable('f%d' % k)
    for i in range(1100):
        e = v * float(i) + k
        compiler.compile_expression(e, [v])
    for i in range(4200 if k == 0 else 50):
        autodiff.gradient(v * float(i) + 1.0, v)
    return None


# ---- object lifetime and the identity-keyed degree memo (GlobalCaches.tla, group "life") ----------
TERMS = {'deep': 620, 'shallow': 60}
LIFE_DEG = {7: 2, 8: 1}


def build_deep(o, regime):
    """7: loop-built sum of (c*x)**2 terms (every prefix has degree 2); 8: loop-built sum of (c*x)*2 (degree 1).
    Both allocate the same number of BinaryOp nodes, so that a model built after another one was dropped
    lands on the freed addresses."""
    import optyx
    x = optyx.Variable('x', lb=-3, ub=3)
    acc = None
    for i in range(TERMS[regime]):
        t = (float(i % 7 + 1) * x) ** 2 if o == 7 else (float(i % 7 + 1) * x) * 2.0
        acc = t if acc is None else acc + t
    return acc


def life_do(w, op, regime):
    import gc
    from optyx import analysis
    kind, o = op
    if kind == 'Build':
        w.deep[o] = build_deep(o, regime)
        return None
    if kind == 'Drop':
        del w.deep[o]
        gc.collect()
        return None
    if kind == 'FillDeg':
        import optyx
        v = optyx.Variable('f')
        keep = [v * float(i) + 1.0 for i in range(1100)]
        for e in keep:
            analysis.compute_degree(e)
        return None
    top = w.deep[o]
    want = LIFE_DEG[o]
    node, depth_from_top = top, 0
    while True:
        got = analysis.compute_degree(node)
        if got != want:
            return 'compute_degree of a degree-%d expression of %s returns %r (node %d below the top)' % (want, 'M' if o == 7 else 'N', got, depth_from_top)
        nxt = getattr(node, 'left', None)
        if nxt is None or getattr(node, 'op', None) != '+':
            break
        node, depth_from_top = nxt, depth_from_top + 1
    if analysis.is_linear(top) != (want == 1):
        return 'is_linear of a degree-%d expression of %s returns %r' % (want, 'M' if o == 7 else 'N', analysis.is_linear(top))
    if top.degree != want:
        return '.degree of a degree-%d expression of %s returns %r' % (want, 'M' if o == 7 else 'N', top.degree)
    return None


def life_text(h):
    return ' ; '.join('%s(%s)' % (k, {7: 'M', 8: 'N'}.get(a, a)) for k, a in h)


def replay_life_chunk(idx, hists):
    part = {'violations': {}, 'counts': {}, 'evaluations': 0, 'traces_validated_against_impl': 0, 'nontrivial': set(),
            'samples': [], 'extra': {}}
    for h in hists:
        text = life_text(h)
        for regime in ('deep', 'shallow'):
            w = World()
            w.deep = {}
            for i, op in enumerate(h):
                d = life_do(w, op, regime)
                part['evaluations'] += 1
                if d:
                    before = sorted(set('%s%s' % (k, {7: 'M', 8: 'N'}.get(a, '')) for k, a in h[:i]))
                    pviolation(part, 'Degree(%s){%s} after {%s}' % ('M' if op[1] == 7 else 'N', regime, ','.join(before)), d.split(' returns')[0],
                               {'history': text, 'regime': regime, 'step': i, 'detail': d})
                    break
            part['traces_validated_against_impl'] += 1
            w.deep.clear()
        part['nontrivial'].add(text)
        if len(part['samples']) < 1:
            part['samples'].append({'history': text})
    return part


# ---- a caller-owned array shared by successive models (GlobalCaches.tla, group "buffer") ----------
BUF = [np.array([[2.0, 0.5], [1.5, 1.0]]), np.array([[4.0, -1.0], [0.25, 3.0]])]      # two contents, neither symmetric
RVEC = np.array([1.0, -2.0])
XPT = np.array([0.7, -0.3])


def buffer_replay(h):
    """-> None or (site, observable, detail)."""
    import optyx
    from optyx.core import autodiff, compiler
    from optyx.core.matrices import quadratic_form
    buf = BUF[0].copy()
    ver = 0
    models = {}
    fresh = set()
    for i, (kind, o) in enumerate(h):
        if kind == 'BuildQF':
            x = optyx.VectorVariable('x', 2, lb=-5, ub=5)
            models[o] = (x, quadratic_form(x, buf) - RVEC @ x)
            fresh.add(o)
        elif kind == 'Mutate':
            ver = 1 - ver
            buf[:] = BUF[ver]            # refreshed in place (rolling horizon): models built from now on see the new matrix
            fresh.clear()
        else:
            x, e = models[o]
            if o not in fresh:
                # the array was refreshed under this model: the caller's own aliasing, exercised but not judged
                try:
                    autodiff.gradient(e, x[0])
                    autodiff.compile_hessian(e, list(x))(XPT.copy())
                except Exception:
                    pass
                continue
            Q = BUF[ver]
            want_g = (Q + Q.T) @ XPT - RVEC
            want_H = Q + Q.T
            vals = {x[0].name: float(XPT[0]), x[1].name: float(XPT[1])}
            got_sym = np.array([float(np.asarray(autodiff.gradient(e, v).evaluate(vals))) for v in x])
            got_c = np.asarray(compiler.compile_gradient(e, list(x))(XPT.copy()), dtype=float).reshape(-1)
            got_j = np.asarray(autodiff.compile_jacobian([e], list(x))(XPT.copy()), dtype=float).reshape(-1)
            got_H = np.asarray(autodiff.compile_hessian(e, list(x))(XPT.copy()), dtype=float)
            for what, have, want in (('gradient()', got_sym, want_g), ('compile_gradient', got_c, want_g), ('compile_jacobian', got_j, want_g), ('compile_hessian', got_H, want_H)):
                if not np.allclose(have, want, rtol=1e-10, atol=1e-12):
                    before = sorted(set(k + ('' if k == 'Mutate' else str(a)) for k, a in h[:i]))
                    return ('GradQF(%s) after {%s}' % (o, ','.join(before)), '%s of a form over a shared array does not use the array\'s current content' % what,
                            {'history': ' ; '.join('%s(%s)' % (k, a) if k != 'Mutate' else 'Mutate' for k, a in h), 'step': i, 'got': np.asarray(have).tolist(), 'expected': np.asarray(want).tolist()})
    return None


def replay_buffer_chunk(idx, hists):
    part = {'violations': {}, 'counts': {}, 'evaluations': 0, 'traces_validated_against_impl': 0, 'nontrivial': set(),
            'samples': [], 'extra': {}}
    for h in hists:
        r = buffer_replay(h)
        part['evaluations'] += len(h)
        part['traces_validated_against_impl'] += 1
        part['nontrivial'].add(str(h))
        if r:
            pviolation(part, r[0], r[1], r[2])
        if len(part['samples']) < 1:
            part['samples'].append({'history': str(h)})
    return part


def buffer_histories(report):
    wd = tlc.workdir()
    try:
        r = tlc.run('GlobalCaches', cfg='GlobalCachesBuf', wd=wd, dump=True)
        report.add_tlc(r)
        hs = set()
        for txt in tlaparse.iter_states(r.dump):
            h = tuple(tuple(x) for x in tlaparse.parse_state(txt)['hist'])
            if h and h[-1][0] == 'GradQF':
                hs.add(h)
    finally:
        tlc.cleanup(wd)
    report.extra['buffer_histories_in_model'] = len(hs)
    return [list(h) for h in sorted(hs)]


def view_gradient(w, m):
    from optyx.core import compiler, autodiff
    e, v = (w.viewM, w.vM) if m == 'M' else (w.viewN, w.vN)
    pt = {x.name: 0.5 for x in v}
    sym = [float(np.asarray(autodiff.gradient(e, x).evaluate(pt))) for x in v]
    cg = np.asarray(compiler.compile_gradient(e, list(v))(np.full(3, 0.5)), dtype=float).reshape(-1).tolist()
    for what, have in (('gradient()', sym), ('compile_gradient', cg)):
        if not np.allclose(have, VIEW_GRAD[m], rtol=0, atol=1e-12):
            return '%s of %s\'s expression over a view returns %r, expected %r' % (what, m, have, VIEW_GRAD[m])
    return None


def name(i):
    return {1: "M's parameter p", 2: "M's variable x", 3: "M's expression p*x + x**2", 4: "N's parameter p", 5: "N's variable x", 6: "N's expression p*x - x"}[i]


def observe_m(w):
    """Final observations on M: values, derivatives, degree, solve results."""
    import optyx
    from optyx.core import compiler, autodiff
    x = np.array([X0])
    out = {}
    out['value'] = float(np.asarray(compiler.compile_expression(w.nM, [w.xM])(x)))
    out['param'] = float(np.asarray(compiler.compile_expression(w.pM, [w.xM])(x)))
    out['grad'] = float(np.asarray(compiler.compile_gradient(w.nM, [w.xM])(x)).reshape(-1)[0])
    out['hess'] = float(np.asarray(autodiff.compile_hessian(w.nM, [w.xM])(x)).reshape(-1)[0])
    out['hess_mixed'] = [float(v) for v in np.asarray(autodiff.compile_hessian(w.hM, [w.xM, w.yM])(np.array([X0, 0.25]))).reshape(-1)]
    out['degree'] = str(w.nM.degree)
    out['view_gradient'] = view_gradient(w, 'M')
    with warnings.catch_warnings():
        warnings.simplefilter('ignore')
        s = optyx.Problem().minimize((w.xM - w.pM) ** 2 + w.pM).solve()
        out['nlp'] = [s.status.value, round(s.values['x'], 6), round(s.objective_value, 6)]
        s = optyx.Problem().minimize(w.hM - 3 * w.xM - 3 * w.yM).subject_to(w.xM + w.yM >= 0.1).solve(method='trust-constr')
        out['nlp_hessian_method'] = [s.status.value, round(s.values['x'], 4), round(s.values['y'], 4)]
        y = optyx.Variable('x', lb=0, ub=4)
        s = optyx.Problem().maximize(2 * y + 1).solve()
        out['lp'] = [s.status.value, round(s.values['x'], 9), round(s.objective_value, 9)]
    return out


def replay_chunk(idx, hists):
    part = {'violations': {}, 'counts': {}, 'evaluations': 0, 'traces_validated_against_impl': 0, 'nontrivial': set(),
            'samples': [], 'extra': {}}
    ref = ctx_ref()
    for h in hists:
        w = World()
        text = ' ; '.join('%s(%s)' % (k, name(a) if k != 'Fill' else a) for k, a in h)
        for i, op in enumerate(h):
            d = do(w, op)
            part['evaluations'] += 1
            if d:
                prefix = sorted(set(k + ('N' if a > 3 else 'M') if k != 'Fill' else 'Fill' for k, a in h[:i]))
                pviolation(part, '%s(%s) after {%s}' % (op[0], 'M' if op[1] <= 3 else 'N', ','.join(prefix)), d.split(' returns')[0], {'history': text, 'step': i, 'detail': d})
                break
        else:
            obs = observe_m(w)
            if obs != ref:
                diff = [k for k in ref if obs.get(k) != ref[k]]
                pviolation(part, 'observations on M after {%s}' % ','.join(sorted(set(k for k, _ in h))), 'differ from a fresh process: ' + ','.join(diff),
                           {'history': text, 'got': obs, 'fresh_process': ref})
        part['traces_validated_against_impl'] += 1
        part['nontrivial'].add(text)
        if len(part['samples']) < 1:
            part['samples'].append({'history': text})
    return part


_REF = None


def ctx_ref():
    return _REF


def fresh_reference():
    """Observations on M in a fresh interpreter process with no other model built before."""
    import optyx
    src = os.path.dirname(os.path.dirname(os.path.abspath(optyx.__file__)))
    p = subprocess.run([sys.executable, '-c', FRESH, common.ROOT, src], capture_output=True, text=True, timeout=120,
                       env=dict(os.environ, PYTHONPATH=os.path.join(common.ROOT, '.vendor')))
    if p.returncode != 0:
        raise common.MachineryError('fresh-process reference failed: ' + p.stderr[-800:])
    return json.loads(p.stdout.strip().splitlines()[-1])


def life_histories(report, tier):
    wd = tlc.workdir()
    try:
        r = tlc.run('GlobalCaches', cfg='GlobalCachesLife', wd=wd, dump=True, overrides={'MaxOps': 5 if tier == 'quick' else 6})
        report.add_tlc(r)
        hs = set()
        for txt in tlaparse.iter_states(r.dump):
            h = tuple(tuple(x) for x in tlaparse.parse_state(txt)['hist'])
            # maximal interesting histories: end with a degree query that follows a drop
            if h and h[-1][0] == 'Degree' and any(k == 'Drop' for k, _ in h):
                hs.add(h)
    finally:
        tlc.cleanup(wd)
    hs = sorted(hs)
    report.extra['lifetime_histories_in_model'] = len(hs)
    if tier == 'quick':
        rng = common.rng('C14life')
        nofill = [h for h in hs if not any(k == 'FillDeg' for k, _ in h)]
        fill = [h for h in hs if any(k == 'FillDeg' for k, _ in h)]
        hs = nofill[:] if len(nofill) <= 160 else rng.sample(nofill, 160)
        hs += rng.sample(fill, min(40, len(fill)))
    return [list(h) for h in hs]


def run(report, tier):
    global _REF
    wd = tlc.workdir()
    try:
        r = tlc.run('GlobalCaches', wd=wd, dump=True, overrides={'MaxOps': 4 if tier == 'quick' else 5})
        report.add_tlc(r)
        hists = []
        for txt in tlaparse.iter_states(r.dump):
            st = tlaparse.parse_state(txt)
            h = [tuple(x) for x in st['hist']]
            if h:
                hists.append(h)
    finally:
        tlc.cleanup(wd)
    life = life_histories(report, tier)
    _REF = fresh_reference()
    report.extra['fresh_process_reference'] = _REF
    rng = common.rng('C14')
    with_fill = [h for h in hists if any(k == 'Fill' for k, _ in h)]
    without = [h for h in hists if not any(k == 'Fill' for k, _ in h)]
    nf = 120 if tier == 'quick' else 1500
    sample = without + rng.sample(with_fill, min(nf, len(with_fill)))
    for part in histrun.parallel(replay_chunk, sample, chunk=25):
        report.merge(part)
    for part in histrun.parallel(replay_life_chunk, life, chunk=8):
        report.merge(part)
    for part in histrun.parallel(replay_buffer_chunk, buffer_histories(report), chunk=20):
        report.merge(part)
    return report.finish(
        rule='GlobalCaches.tla (compile and gradient LRUs, capacity 2, leaves equal by name, bare parameters bypass the cache) model-checked '
             'exhaustively for C14_NoCrossTalk. Every history of cache operations of the model (compile / gradient-compile on two models M and N '
             'that share the names p and x with different values and bounds, fillers overflowing the real capacities 1024 / 4096) is replayed: '
             'each operation\'s callable must read its own model\'s parameter; afterwards the observations on M (value, parameter, gradient, '
             'Hessian, degree, NLP and LP solve) must equal those computed in a fresh interpreter process. All histories without fillers, a '
             'seeded sample of those with fillers. Object lifetime (group "life" of the same module, C14_DegreeOwn): every history of Build / '
             'Degree / Drop / FillDeg over a quadratic and a linear model in which a degree is asked after some model was dropped is replayed with '
             'deep (>= 400 levels, iterative path) and shallow loop-built objectives allocated so that a later model reuses the addresses of a '
             'collected one; compute_degree of every prefix node, is_linear and .degree must be the expression\'s own. Shared caller-owned array (group "buffer", '
             'C14_BufferCurrent): every history of BuildQF / Mutate (in-place refresh) / GradQF over two models built on one NumPy buffer; gradient, '
             'compiled gradient / Jacobian / Hessian of each form must be those of the buffer\'s current content.',
        exhaustive=False)
