"""C19 - derivative callables stay finite at singular points."""
import math
import numpy as np
from fractions import Fraction as Fr
from .. import apirun, progjudge, interp
from ..common import pviolation, bump
from ..interp import name_of, Irregular, MPEval
from .c03 import setof

BIG = 1e16


def atomic(t):
    """The singular cases the property names: f(x), x**k, sums of those over a vector, norms."""
    k = t['k']
    if k == 'un':
        a = t['a']
        if a['k'] == 'var':
            return True
        if t['f'] == 'sqrt':
            return sum_of(a, lambda u: u['k'] == 'bin' and u['op'] == '*' and u['l']['k'] == 'var' and u['l'] == u['r'])
        return False
    if k == 'bin' and t['op'] == '**':
        return t['l']['k'] == 'var' and t['r']['k'] == 'const'
    if k == 'bin' and t['op'] == '+':
        return atomic(t['l']) and atomic(t['r'])
    return False


def sum_of(t, pred):
    if t['k'] == 'bin' and t['op'] == '+':
        return sum_of(t['l'], pred) and sum_of(t['r'], pred)
    return pred(t)


def numeric(term, pt):
    """Value of a spec term at the point with exact singularities only; None if it involves one."""
    try:
        return float(MPEval(pt, {}, strict=False).ev(term))
    except (Irregular, ZeroDivisionError, ValueError, OverflowError):
        return None


def check_entry(have, cls, term, pt, is_atomic):
    """-> None or (observable, detail). cls: the spec's class record for this entry."""
    if not math.isfinite(have):
        return 'non-finite entry returned at a singular point', {'got': repr(have), 'spec_class': cls['cls']}
    c = cls['cls']
    if c == 'any':
        return None
    if c == 'fin':
        want = cls['q'][0] / cls['q'][1]
        if abs(have - want) > 1e-9 * (1 + abs(want)):
            return 'regular entry changed at a singular point', {'got': have, 'expected': want}
        return None
    if c == 'ufin':
        want = numeric(term, pt)
        if want is not None and abs(want) < 1e15 and abs(have - want) > 1e-8 * (1 + abs(want)):
            return 'regular entry changed at a singular point', {'got': have, 'expected': want}
        return None
    if not is_atomic:
        return None          # compound formula hitting 0*inf etc.: only finiteness is demanded
    if c == 'undef' and have != 0.0:
        return 'undefined derivative entry is not 0', {'got': have}
    if c == '+big' and have != BIG:
        return 'unbounded derivative entry is not +1e16', {'got': have}
    if c == '-big' and have != -BIG:
        return 'unbounded derivative entry is not -1e16', {'got': have}
    if c == 'big' and abs(have) != BIG:
        return 'unbounded derivative entry is not +-1e16', {'got': have}
    return None


def observer(got, pred, sp, call, sg, prog, ctx, part):
    if pred['kind'] != 'S' or not sp.get('sing'):
        return
    from optyx.core import compiler, autodiff
    den = pred['den']
    names = sorted(name_of(n) for n in setof(sp['vars']))
    foreign = [name_of(n) for n in ctx.all_names if name_of(n) not in names][:1]
    vm = ctx.varmap
    D = {name_of(k): v for k, v in sp['D'].items()}
    Hs = {(name_of(k[0]), name_of(k[1])): v for k, v in sp['H'].items()} if isinstance(sp['H'], dict) else {}
    is_atomic = atomic(den)
    if is_atomic:
        bump(part, 'atomic_cases')

    def bad(obs, detail=None):
        pviolation(part, sg, obs, {'program': prog, 'den': interp.term_str(den), 'detail': detail}, own=part['_own'], prefixes=part['_prefixes'])

    for V in (names, list(reversed(names)) + foreign):
        vars_ = [vm[n] for n in V]
        try:
            fg = compiler.compile_gradient(got, vars_)
            fj = autodiff.compile_jacobian([got], vars_)
            ce = compiler.CompiledExpression(got, vars_)
            fh = autodiff.compile_hessian(got, vars_)
        except Exception as e:
            bump(part, 'compile_raises_left_to_C03', type(e).__name__)
            return
        bump(part, 'closures', getattr(fg, '__name__', '?'))
        bump(part, 'closures', getattr(fh, '__name__', '?'))
        for s in sp['sing']:
            pt = {name_of(k): Fr(v[0], v[1]) for k, v in s['pt'].items()}
            for f in foreign:
                pt[f] = Fr(7, 4)
            x = np.array([float(pt[n]) for n in V], dtype=float)
            d = {name_of(k): v for k, v in s['d'].items()}
            h = {(name_of(k[0]), name_of(k[1])): v for k, v in s['h'].items()}
            try:
                g = np.asarray(fg(x), dtype=float).reshape(-1)
                j = np.asarray(fj(x), dtype=float).reshape(-1)
                c = np.asarray(ce.gradient(x), dtype=float).reshape(-1)
                H = np.asarray(fh(x), dtype=float)
            except Exception as e:
                bad('derivative callable raises %s at a singular point' % type(e).__name__, {'V': V, 'point': {k: str(v) for k, v in pt.items()}})
                return
            part['evaluations'] += 1
            zero = {'cls': 'fin', 'q': [0, 1]}
            ZT = {'k': 'const', 'q': [0, 1]}
            for i, n in enumerate(V):
                for what, arr in (('compile_gradient', g), ('compile_jacobian', j), ('CompiledExpression.gradient', c)):
                    r = check_entry(float(arr[i]), d.get(n, zero), D.get(n, ZT), pt, is_atomic)
                    if r:
                        bad('%s: %s' % (what, r[0]), dict(r[1], V=V, wrt=n, point={k: str(v) for k, v in pt.items()}, closure=getattr(fg, '__name__', '?')))
                        return
                if not (g[i] == j[i] == c[i]) and all(map(math.isfinite, (g[i], j[i], c[i]))) and max(abs(g[i] - j[i]), abs(g[i] - c[i])) > 1e-9 * (1 + abs(g[i])):
                    bad('general and specialised paths return different arrays at a singular point',
                        {'V': V, 'wrt': n, 'compile_gradient': float(g[i]), 'compile_jacobian': float(j[i]), 'CompiledExpression': float(c[i])})
                    return
                for k2, m in enumerate(V):
                    r = check_entry(float(H[i, k2]), h.get((n, m), zero), Hs.get((n, m), ZT), pt, is_atomic)
                    if r:
                        bad('compile_hessian: %s' % r[0], dict(r[1], V=V, entry=[n, m], point={k: str(v) for k, v in pt.items()}, closure=getattr(fh, '__name__', '?')))
                        return


def run(report, tier):
    apirun.run_config(report, 'MC_C19', observer=observer, report_kinds=())
    apirun.run_config(report, 'MC_C19R', observer=observer, report_kinds=(), tag='R', overrides=None if tier == 'quick' else {'MaxCalls': 2})
    return report.finish(
        rule='every Api program of <= 2 calls over the C19 signature (16 functions, powers 1/2, -1, 2, 3/2, -1/2, 3, 1, vector sums, norms, dot) '
             'with a scalar result: TLC evaluates value, first and second derivatives with extended arithmetic (Ext.tla) at every point that puts '
             '0, 1 or -1 on one or all coordinates and classifies each entry (exact, finite, undefined, +-unbounded). compile_gradient, '
             'compile_jacobian, CompiledExpression.gradient and compile_hessian (2 variable orders incl. a superset) must return finite arrays; '
             'entries classed regular must equal the true value; the paths must agree; for the atomic cases the property names, undefined -> 0 '
             'and unbounded -> +-1e16 with the catalogued sign.',
        exhaustive=True)
