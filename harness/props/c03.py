"""C03 - solver-facing gradients and Jacobians are correct in the declared variable order."""
import numpy as np
from .. import apirun, progjudge, interp
from ..common import pviolation, bump
from ..interp import name_of, Irregular
from .c01 import vlists


def setof(x):
    return x[1] if isinstance(x, tuple) and x and x[0] == 'set' else x


def observer(got, pred, sp, call, sg, prog, ctx, part):
    if pred['kind'] != 'S':
        return
    from optyx.core import compiler, autodiff
    # expression list: the newest scalar, optionally preceded by the earlier enumerated scalars of this program
    rows = [(got, sp)]
    for i, p in enumerate(ctx.cur_preds[:-1]):
        h = ctx.nb + i + 1
        if ctx.cur_heap[h - 1]['kind'] == 'S' and p:
            rows.insert(0, (ctx.cur_objs[h], p))
    names = sorted(set(name_of(n) for _, p in rows for n in setof(p['vars'])))
    own_names = sorted(name_of(n) for n in setof(sp['vars']))

    def bad(obs, detail=None):
        pviolation(part, sg, obs, {'program': prog, 'den': interp.term_str(pred['den']), 'detail': detail},
                   own=part['_own'], prefixes=part['_prefixes'])

    def reg_points(ps):
        return [pt for pt in ctx.points if all(interp.regular_for_derivative(p['den'], pt, ctx.pars) for _, p in ps)][:3]

    def want_matrix(ps, V, pt):
        out = []
        for _, p in ps:
            row = []
            for n in V:
                key = next((k for k in p['D'] if name_of(k) == n), None)
                w, tol = progjudge.oracle(p['D'][key], pt, ctx.pars)
                row.append((w, tol))
            out.append(row)
        return out

    def compare(have, want, what, V, pt, fn):
        have = np.asarray(have, dtype=float)
        if have.shape != (len(want), len(want[0])):
            bad('%s: shape %s' % (what, have.shape), {'V': V})
            return False
        for i, row in enumerate(want):
            for j, (w, tol) in enumerate(row):
                if not interp.close(float(have[i, j]), w, max(tol, ctx.looser * (1 + abs(w)))):
                    bad('%s differs from the true derivative' % what,
                        {'V': V, 'entry': [i, j], 'got': float(have[i, j]), 'expected': w, 'closure': getattr(fn, '__name__', '?'),
                         'point': {k: str(v) for k, v in pt.items()}})
                    return False
        return True

    vm = ctx.varmap
    # single expression: compile_gradient, CompiledExpression.gradient, 1-row compile_jacobian
    pts1 = reg_points([(got, sp)])
    if not pts1:
        bump(part, 'cases_without_regular_point_for_derivative')
    for V in vlists(sp, own_names, ctx):
        vars_ = [vm[n] for n in V]
        for api in ('compile_gradient', 'CompiledExpression.gradient', 'compile_jacobian'):
            try:
                if api == 'compile_gradient':
                    fn = compiler.compile_gradient(got, vars_)
                    call_ = lambda x: np.asarray(fn(x), dtype=float).reshape(1, -1)
                elif api == 'CompiledExpression.gradient':
                    ce = compiler.CompiledExpression(got, vars_)
                    fn = ce._gradient_fn if hasattr(ce, '_gradient_fn') else ce.gradient
                    call_ = lambda x: np.asarray(ce.gradient(x), dtype=float).reshape(1, -1)
                else:
                    fn = autodiff.compile_jacobian([got], vars_)
                    call_ = lambda x: np.asarray(fn(x), dtype=float)
            except Exception as e:
                bad('%s raises %s' % (api, type(e).__name__), {'V': V})
                return
            bump(part, 'closures', getattr(fn, '__name__', '?'))
            pb = progjudge.PointBuffer()
            for pt in pts1:
                try:
                    want = want_matrix([(got, sp)], V, pt)
                except Irregular:
                    bump(part, 'points_skipped_irregular')
                    continue
                try:
                    have = call_(pb.at([float(pt[n]) for n in V]))
                except Exception as e:
                    bad('%s callable raises %s' % (api, type(e).__name__), {'V': V})
                    return
                part['evaluations'] += 1
                if not compare(have, want, api, V, pt, fn):
                    return
    # parameters: the callables are built while each parameter holds 1, 0 and its own value (fresh objects each time),
    # then the parameter is moved: the compiled derivative is a function of the parameter's CURRENT value
    if ctx.pars:
        param_step(got, sp, pred['den'], own_names, ctx, part, bad)
    # several expressions: compile_jacobian over the union of their variables (+ rotation)
    if len(rows) > 1:
        pts = reg_points(rows)
        for V in (names, list(reversed(names)), names[1:] + names[:1]):
            vars_ = [vm[n] for n in V]
            try:
                fn = autodiff.compile_jacobian([e for e, _ in rows], vars_)
            except Exception as e:
                bad('compile_jacobian raises %s' % type(e).__name__, {'V': V, 'rows': len(rows)})
                return
            bump(part, 'closures', getattr(fn, '__name__', '?'))
            pb = progjudge.PointBuffer()
            for pt in pts:
                try:
                    want = want_matrix(rows, V, pt)
                except Irregular:
                    continue
                try:
                    have = fn(pb.at([float(pt[n]) for n in V]))
                except Exception as e:
                    bad('compile_jacobian callable raises %s' % type(e).__name__, {'V': V})
                    return
                part['evaluations'] += 1
                if not compare(have, want, 'compile_jacobian (multi-row)', V, pt, fn):
                    return


def param_step(got, sp, den, names, ctx, part, bad):
    from fractions import Fraction as Fr
    from optyx.core import compiler, autodiff
    from .c01 import _pars
    from .. import apiexec, apirun
    pids = set(_pars(den))
    if not pids or not names or len(names) > 3:
        return
    D = {name_of(k): v for k, v in sp['D'].items()}
    saved = ctx.parobjs
    try:
        for init in (Fr(1), Fr(0)):
            objs = progjudge.build_base(ctx)
            parobjs = {c['i']: objs[n + 1] for n, c in enumerate(ctx.base_calls) if c['c'] == 'MkPar'}
            for pid, (h, k, size) in getattr(ctx, 'parvec', {}).items():
                parobjs[pid] = progjudge.VecElemSetter(objs[h], k)
            for pid in pids:
                parobjs[pid].set(float(init))
            nb = len(ctx.base_calls)
            e = None
            for i, c in enumerate(ctx.cur_calls):
                e = apiexec.execute(c, objs)
                objs[nb + i + 1] = e
            vm = apirun.varmap(objs)
            vars_ = [vm[n] for n in names]
            try:
                fns = [('compile_gradient', compiler.compile_gradient(e, vars_)), ('compile_jacobian', autodiff.compile_jacobian([e], vars_)),
                       ('CompiledExpression.gradient', compiler.CompiledExpression(e, vars_).gradient)]
            except Exception:
                return
            for pid in pids:
                parobjs[pid].set(float(ctx.pars[pid]))      # back to the declared value: already an update after compiling
            for pt in ctx.points[:3]:
                if not interp.regular_for_derivative(den, pt, ctx.pars):
                    continue
                try:
                    want = [progjudge.oracle(D[n], pt, ctx.pars) for n in names]
                except Irregular:
                    continue
                x = np.array([float(pt[n]) for n in names], dtype=float)
                for what, fn in fns:
                    try:
                        have = np.asarray(fn(x), dtype=float).reshape(-1)
                    except Exception as ex:
                        bad('%s raises %s after Parameter.set' % (what, type(ex).__name__))
                        return
                    part['evaluations'] += 1
                    for h_, (w, tol) in zip(have, want):
                        if not interp.close(float(h_), w, max(tol, ctx.looser * (1 + abs(w)))):
                            bad('%s built while the parameter held %s does not follow Parameter.set' % (what, init),
                                {'got': [float(v) for v in have], 'expected': [w_ for w_, _ in want], 'point': {k: str(v) for k, v in pt.items()}})
                            return
    finally:
        ctx.parobjs = saved


def run(report, tier):
    apirun.run_config(report, 'MC_C01', observer=observer, report_kinds=('S',), overrides={'Want': '<-MC_WantDV'})
    apirun.run_config(report, 'MC_C01M', observer=observer, report_kinds=('S',), overrides={'Want': '<-MC_WantDV'})
    if tier == 'thorough':      # one call deeper over a reduced alphabet (3 functions, 2 literals, operators + * **)
        apirun.run_config(report, 'MC_C01', observer=observer, report_kinds=('S',), overrides=dict({'MaxCalls': 3, 'Fns': '<-MC_FnsSmall', 'ScalarLits': '<-MC_ScalarLitsSmall', 'SOps': '<-MC_SOpsSmall', 'VOps': '<-MC_VOpsSmall', 'Indices': '<-MC_IndicesSmall'}, Want='<-MC_WantDV'), tag='deep')
    return report.finish(
        rule='every Api program of <= MaxCalls calls with a scalar result: compile_gradient, CompiledExpression.gradient and '
             'compile_jacobian (single row and with the earlier scalars of the program as further rows) for every permutation / '
             'superset variable list, at up to 3 regular rational points (handed over in one array that is overwritten in place from point to point), against the matrix of spec derivatives D(Den(e_i), V_j). '
             'Closure names are recorded for path coverage only.',
        exhaustive=True)
