"""C16 - a problem's variables are exactly those it mentions, in natural name order, with the declared bounds."""
import numpy as np
from .. import apirun, progjudge, interp, tlaparse, common
from ..common import pviolation, bump
from ..interp import name_of


def fbound(x):
    return None if x[1] == 0 else x[0] / x[1]


def solve_stubbed(prob, method):
    """Run prob.solve with both solver seams stubbed; the stub returns the starting point."""
    import scipy.optimize
    import optyx.solvers.scipy_solver as ss
    from scipy.optimize import OptimizeResult
    real_min, real_lp = ss.minimize, scipy.optimize.linprog
    seen = {}

    def smin(fun, x0, **kw):
        seen['minimize'] = kw
        return OptimizeResult(x=np.asarray(x0, dtype=float), success=True, message='stub', fun=float(fun(x0)), nit=0, status=0)

    def slp(c, **kw):
        seen['linprog'] = dict(kw, c=c)
        x = np.zeros(len(c))
        return OptimizeResult(x=x, success=True, message='stub', fun=float(np.dot(c, x)), nit=0, status=0)

    ss.minimize, scipy.optimize.linprog = smin, slp
    try:
        return prob.solve(method=method), seen
    finally:
        ss.minimize, scipy.optimize.linprog = real_min, real_lp


def observer(got, pred, sp, call, sg, prog, ctx, part):
    if pred['kind'] != 'PR':
        return
    want = [name_of(n) for n in sp['vars']]

    def bad(obs, detail=None):
        pviolation(part, 'Problem', obs, {'program': prog, 'problem': progjudge.summarize(pred), 'detail': detail},
                   own=part['_own'], prefixes=part['_prefixes'])

    try:
        have = [v.name for v in got.variables]
        n = got.n_variables
        bnds = got.get_bounds()
        doms = [v.domain for v in got.variables]
    except Exception as e:
        bad('Problem.variables raises %s' % type(e).__name__)
        return
    part['evaluations'] += 1
    if sorted(have) != sorted(want):
        bad('variable set differs from the variables occurring in objective and constraints', {'got': have, 'expected': want})
        return
    if len(set(have)) != len(have):
        bad('duplicate variable names', {'got': have})
        return
    if have != want:
        bad('variables are not in natural name order', {'got': have, 'expected': want})
        return
    if n != len(want):
        bad('n_variables', {'got': n})
        return
    wb = [(fbound(b[0]), fbound(b[1])) for b in sp['bounds']]
    hb = [(None if lb is None else float(lb), None if ub is None else float(ub)) for lb, ub in bnds]
    if hb != wb:
        bad('get_bounds() differs from the declared bounds', {'got': hb, 'expected': wb, 'vars': want})
        return
    if doms != sp['domains']:
        bad('variable domains differ from the declared ones', {'got': doms, 'expected': sp['domains']})
        return
    # keys of Solution.values
    for method in ('auto', 'SLSQP'):
        import warnings
        try:
            with warnings.catch_warnings():
                warnings.simplefilter('ignore')
                sol, _ = solve_stubbed(got, method)
        except Exception as e:
            bump(part, 'stubbed_solve_raises', type(e).__name__)
            continue
        if sol.values and list(sol.values) != want:
            bad('keys of Solution.values differ from the problem variables', {'got': list(sol.values), 'expected': want, 'method': method})
            return
    replaced_objective(got, pred, call, prog, ctx, part, bad)


def term_names(t, out=None):
    out = set() if out is None else out
    k = t['k']
    if k == 'var':
        out.add(name_of(t['n']))
    elif k == 'un':
        term_names(t['a'], out)
    elif k == 'bin':
        term_names(t['l'], out)
        term_names(t['r'], out)
    return out


def replaced_objective(got, pred, call, prog, ctx, part, bad):
    """The problem's variables were read (and it was solved); the objective is then replaced by a base scalar that mentions
    fewer variables: the variable list is the one of the CURRENT model - the natural order of those names is the order
    TLC computed for the original problem restricted to them."""
    from ..recorder import natkey
    heap = ctx.cur_heap
    cons_names = set()
    for h in (call['b'], call['k']):
        if h:
            o = heap[h - 1]
            for c in ([o] if o['kind'] == 'C' else o.get('cons', [])):
                term_names(c['den'], cons_names)
    old = term_names(heap[call['a'] - 1]['den'])
    for h in range(1, ctx.nb + 1):
        o = heap[h - 1]
        if o['kind'] != 'S' or o.get('may') or h == call['a']:
            continue
        new = term_names(o['den'])
        if not new or not (new | cons_names) < (old | cons_names):
            continue
        want = sorted(new | cons_names, key=natkey)
        try:
            got.minimize(ctx.cur_objs[h])
            have = [v.name for v in got.variables]
            n = got.n_variables
            nb = len(got.get_bounds())
        except Exception as e:
            bad('Problem.variables raises %s after the objective was replaced' % type(e).__name__)
            return
        part['evaluations'] += 1
        if have != want or n != len(want) or nb != len(want):
            bad('variables after replacing the objective are not those of the current model', {'got': have, 'expected': want, 'new_objective': 'h%d' % h})
        return


def check_code_table(log):
    code = tlaparse.extract_printed(log, 'CODE')
    if code is None:
        raise common.MachineryError('CODE table not printed')
    for k, v in code[1].items():
        if ''.join(chr(c) for c in v) != k:
            raise common.MachineryError('Names.Code[%r] = %r is not the string' % (k, v))


def run(report, tier):
    r = apirun.run_config(report, 'MC_C16', observer=observer, report_kinds=())
    check_code_table(r.log)
    if tier == 'thorough':      # four calls: two expression-building calls, a comparison, the problem
        apirun.run_config(report, 'MC_C16', observer=observer, report_kinds=(), tag='deep', overrides={'MaxCalls': 4, 'Stages': '<-MC_StagesDeep'})
    return report.finish(
        rule='every program of <= 3 calls over the C16 signature (names x2/x10/x1y, an 11-element vector, a binary vector, a symmetric '
             'matrix, reversed / strided / partial slices, reductions, comparisons) ending in Problem assembly: Problem.variables, '
             'n_variables, get_bounds, domains and the keys of Solution.values (stubbed solver seams) against the spec '
             'ProblemVars (natural order computed in TLA+ on character codes) and the declared bounds.',
        exhaustive=True)
