"""C05 - the linear program optyx extracts is the model the user wrote."""
import numpy as np
from .. import apirun, progjudge, interp, common
from ..common import pviolation, bump
from ..interp import name_of
from .c16 import fbound, check_code_table


def fq(x):
    return x[0] / x[1]


def observer(got, pred, sp, call, sg, prog, ctx, part):
    if pred['kind'] != 'PR':
        return
    from optyx import analysis

    def bad(obs, detail=None):
        pviolation(part, lpsite(pred), obs, {'program': prog, 'problem': progjudge.summarize(pred), 'detail': detail},
                   own=part['_own'], prefixes=part['_prefixes'])

    try:
        treated = bool(got._is_linear_problem())
    except Exception as e:
        bump(part, 'linearity_check_raises', type(e).__name__)
        return
    if not treated:
        bump(part, 'not_treated_as_lp')
        return
    if not sp['islp']:
        if any(d == -2 for d in sp['degs']):
            bump(part, 'undecided_toobig')
            return
        bad('treated as a linear program although objective or a constraint is not affine', {'true_degrees': sp['degs']})
        return
    part['nontrivial'].add(prog)
    lp = sp['lp']
    want_names = [name_of(n) for n in sp['vars']]
    try:
        data = analysis.LinearProgramExtractor().extract(got)
        c0 = analysis.extract_constant_term(got.objective)
    except Exception as e:
        bad('LP extraction raises %s' % type(e).__name__)
        return
    part['evaluations'] += 1
    if sorted(data.variables) != sorted(want_names):
        bad('a variable of the model has no column in the extracted LP (or a column has no variable)', {'got': list(data.variables), 'expected': want_names})
        return
    if list(data.variables) != want_names:
        bump(part, 'variable_order_differs_left_to_C16')
        return

    def veq(a, b):
        a = np.asarray(a, dtype=float)
        b = np.asarray(b, dtype=float)
        return a.shape == b.shape and bool(np.all(np.abs(a - b) <= 1e-12 * (1 + np.abs(b))))

    if not veq(data.c, [fq(x) for x in lp['c']]):
        bad('cost vector differs from the objective\'s coefficients', {'got': list(map(float, data.c)), 'expected': [fq(x) for x in lp['c']], 'vars': want_names})
        return
    if abs(float(c0) - fq(lp['c0'])) > 1e-12 * (1 + abs(fq(lp['c0']))):
        bad('constant term of the objective', {'got': float(c0), 'expected': fq(lp['c0'])})
        return
    if data.sense != lp['sense']:
        bad('sense', {'got': data.sense})
        return
    for grp, A, b in (('ub', data.A_ub, data.b_ub), ('eq', data.A_eq, data.b_eq)):
        rows = lp[grp]
        if not rows:
            if A is not None and len(A):
                bad('%d unexpected %s rows' % (len(A), grp))
                return
            continue
        if A is None or len(A) != len(rows):
            bad('number of %s rows' % grp, {'got': None if A is None else len(A), 'expected': len(rows)})
            return
        for i, r in enumerate(rows):
            if not veq(A[i], [fq(x) for x in r['a']]):
                bad('constraint row differs from the written constraint', {'group': grp, 'row': i, 'got': list(map(float, A[i])), 'expected': [fq(x) for x in r['a']], 'vars': want_names})
                return
            if abs(float(b[i]) - fq(r['b'])) > 1e-12 * (1 + abs(fq(r['b']))):
                bad('right-hand side differs from the written constraint', {'group': grp, 'row': i, 'got': float(b[i]), 'expected': fq(r['b'])})
                return
    wb = [(fbound(x[0]), fbound(x[1])) for x in sp['bounds']]
    hb = [(None if lb is None else float(lb), None if ub is None else float(ub)) for lb, ub in data.bounds]
    if hb != wb:
        bad('bounds differ from the declared bounds', {'got': hb, 'expected': wb})
        return
    # the LP that actually reaches linprog (first solve, a solve that linprog rejects, the next solve): a stratified subset
    import hashlib
    from .c08 import stratified_keep
    h = int(hashlib.sha1((prog + 'c05seam' + str(common.seed())).encode()).hexdigest()[:8], 16)
    if stratified_keep(ctx, part, h, 30, per_shape=1):
        import optyx
        other = optyx.Problem()
        (other.maximize if lp['sense'] == 'min' else other.minimize)(ctx.cur_objs[call['a']])
        if call['b']:
            other.subject_to(ctx.cur_objs[call['b']])
        for prob_, lp_ in ((got, lp), (other, dict(lp, sense='max' if lp['sense'] == 'min' else 'min'))):
            d = seam_lp(prob_, lp_, wb, veq)
            if d:
                bad(d[0], dict(d[1] or {}, orientation=lp_['sense']))
                return
    # per-variable coefficient API
    vm = {v.name: v for v in got.variables}
    for n, x in zip(want_names, lp['c']):
        try:
            cf = analysis.extract_linear_coefficient(got.objective, vm[n])
        except Exception as e:
            bad('extract_linear_coefficient raises %s' % type(e).__name__)
            return
        if abs(float(cf) - fq(x)) > 1e-12 * (1 + abs(fq(x))):
            bad('extract_linear_coefficient differs from the true coefficient', {'var': n, 'got': float(cf), 'expected': fq(x)})
            return


def seam_lp(prob, lp, wb, veq):
    """Solve, solve with a keyword linprog rejects (reported FAILED), solve again: every time linprog is entered its cost
    vector (negated for maximise), rows, right-hand sides and bounds must be the LP of the model.  -> None | (observable, detail)"""
    import warnings
    import scipy.optimize
    real = scipy.optimize.linprog
    seen = []

    def capture(*a, **kw):
        snap = dict(kw, c=a[0]) if a else dict(kw)
        # a snapshot of what linprog is handed at this moment (the caller may legitimately reuse or restore its arrays afterwards)
        seen.append({k: (np.array(v, dtype=float, copy=True) if isinstance(v, np.ndarray) else (list(v) if isinstance(v, list) else v)) for k, v in snap.items()})
        return real(*a, **kw)
    scipy.optimize.linprog = capture
    try:
        with warnings.catch_warnings():
            warnings.simplefilter('ignore')
            for step, kw in (('first solve', {}), ('rejected keyword', {'no_such_option_': 1}), ('solve after a rejected one', {})):
                seen.clear()
                try:
                    s = prob.solve(**kw)
                except Exception as e:
                    return 'solve raises %s on a linear problem (%s)' % (type(e).__name__, step), None
                if kw:
                    continue
                if not seen:
                    return 'a linear problem did not reach linprog (%s)' % step, None
                k = seen[-1]
                sign = -1.0 if lp['sense'] == 'max' else 1.0
                if not veq(np.asarray(k['c'], dtype=float), [sign * fq(x) for x in lp['c']]):
                    return 'cost vector handed to linprog is not the objective\'s coefficients (%s)' % step, {'got': list(map(float, k['c'])), 'expected': [sign * fq(x) for x in lp['c']]}
                for grp, A, b in (('ub', k.get('A_ub'), k.get('b_ub')), ('eq', k.get('A_eq'), k.get('b_eq'))):
                    rows = lp[grp]
                    n_have = 0 if A is None else len(A)
                    if n_have != len(rows):
                        return 'number of %s rows handed to linprog (%s)' % (grp, step), {'got': n_have, 'expected': len(rows)}
                    for i, r in enumerate(rows):
                        if not veq(A[i], [fq(x) for x in r['a']]) or abs(float(b[i]) - fq(r['b'])) > 1e-12 * (1 + abs(fq(r['b']))):
                            return 'constraint row handed to linprog differs from the written constraint (%s)' % step, {'group': grp, 'row': i}
                hb = [(None if lo is None or lo == -np.inf else float(lo), None if hi is None or hi == np.inf else float(hi)) for lo, hi in (k.get('bounds') or [])]
                if hb != wb:
                    return 'bounds handed to linprog differ from the declared bounds (%s)' % step, {'got': hb, 'expected': wb}
    finally:
        scipy.optimize.linprog = real
    return None


def lpsite(pred):
    """Site signature for LP violations: which syntactic features the model's terms contain."""
    feats = set()

    def walk(t):
        k = t['k']
        if k in ('const', 'par'):
            return False
        if k == 'var':
            return True
        if k == 'un':
            hv = walk(t['a'])
            feats.add(t['f'])
            if not hv:
                feats.add('constexpr')
            return hv
        l = walk(t['l'])
        r = walk(t['r'])
        if not l and not r:
            feats.add('constexpr')
        if t['op'] == '**':
            feats.add('pow')
        if t['op'] == '/':
            feats.add('div')
        return l or r
    walk(pred['obj'])
    for c in pred['cons']:
        walk(c['den'])
    return 'LP[%s]' % ','.join(sorted(feats))


def run(report, tier):
    r = apirun.run_config(report, 'MC_C05', observer=observer, report_kinds=(),
                          overrides=None if tier == 'thorough' else {'ObjCands': '<- MC_ObjCandsQ'})
    check_code_table(r.log)
    if tier == 'thorough':
        # maximise as well, a third literal, and C05_LPDenotes model-checked on the grid (the quick objective set keeps TLC within budget)
        apirun.run_config(report, 'MC_C05', cfg='MC_C05T', observer=observer, report_kinds=(), tag='T', overrides={'ObjCands': '<- MC_ObjCandsQ'}, timeout=5400)
    return report.finish(
        rule='every program expression -> comparison -> Problem over the C05 signature of linear spellings: for each problem optyx treats '
             'as linear, LinearProgramExtractor.extract (variables, c, sense, A_ub, b_ub, A_eq, b_eq, bounds), extract_constant_term and '
             'extract_linear_coefficient are compared field by field with the LP computed by TLC from the exact normal form '
             '(the thorough config also model-checks C05_LPDenotes on a grid). distinct_nontrivial = distinct problems treated as LP.',
        exhaustive=True)
