"""C05 - the linear program optyx extracts is the model the user wrote."""
import numpy as np
from .. import apirun, progjudge, interp
from ..common import pviolation, bump
from ..interp import name_of
from .c16 import fbound, check_code_table


def fq(x):
    return x[0] / x[1]


def observer(got, pred, sp, call, sg, prog, ctx, part):
    if pred['kind'] != 'PR':
        return
    from optyx import analysis

    def bad(obs, detail=None):
        pviolation(part, lpsite(pred), obs, {'program': prog, 'problem': progjudge.summarize(pred), 'detail': detail},
                   own=part['_own'], prefixes=part['_prefixes'])

    try:
        treated = bool(got._is_linear_problem())
    except Exception as e:
        bump(part, 'linearity_check_raises', type(e).__name__)
        return
    if not treated:
        bump(part, 'not_treated_as_lp')
        return
    if not sp['islp']:
        if any(d == -2 for d in sp['degs']):
            bump(part, 'undecided_toobig')
            return
        bad('treated as a linear program although objective or a constraint is not affine', {'true_degrees': sp['degs']})
        return
    part['nontrivial'].add(prog)
    lp = sp['lp']
    want_names = [name_of(n) for n in sp['vars']]
    try:
        data = analysis.LinearProgramExtractor().extract(got)
        c0 = analysis.extract_constant_term(got.objective)
    except Exception as e:
        bad('LP extraction raises %s' % type(e).__name__)
        return
    part['evaluations'] += 1
    if sorted(data.variables) != sorted(want_names):
        bad('a variable of the model has no column in the extracted LP (or a column has no variable)', {'got': list(data.variables), 'expected': want_names})
        return
    if list(data.variables) != want_names:
        bump(part, 'variable_order_differs_left_to_C16')
        return

    def veq(a, b):
        a = np.asarray(a, dtype=float)
        b = np.asarray(b, dtype=float)
        return a.shape == b.shape and bool(np.all(np.abs(a - b) <= 1e-12 * (1 + np.abs(b))))

    if not veq(data.c, [fq(x) for x in lp['c']]):
        bad('cost vector differs from the objective\'s coefficients', {'got': list(map(float, data.c)), 'expected': [fq(x) for x in lp['c']], 'vars': want_names})
        return
    if abs(float(c0) - fq(lp['c0'])) > 1e-12 * (1 + abs(fq(lp['c0']))):
        bad('constant term of the objective', {'got': float(c0), 'expected': fq(lp['c0'])})
        return
    if data.sense != lp['sense']:
        bad('sense', {'got': data.sense})
        return
    for grp, A, b in (('ub', data.A_ub, data.b_ub), ('eq', data.A_eq, data.b_eq)):
        rows = lp[grp]
        if not rows:
            if A is not None and len(A):
                bad('%d unexpected %s rows' % (len(A), grp))
                return
            continue
        if A is None or len(A) != len(rows):
            bad('number of %s rows' % grp, {'got': None if A is None else len(A), 'expected': len(rows)})
            return
        for i, r in enumerate(rows):
            if not veq(A[i], [fq(x) for x in r['a']]):
                bad('constraint row differs from the written constraint', {'group': grp, 'row': i, 'got': list(map(float, A[i])), 'expected': [fq(x) for x in r['a']], 'vars': want_names})
                return
            if abs(float(b[i]) - fq(r['b'])) > 1e-12 * (1 + abs(fq(r['b']))):
                bad('right-hand side differs from the written constraint', {'group': grp, 'row': i, 'got': float(b[i]), 'expected': fq(r['b'])})
                return
    wb = [(fbound(x[0]), fbound(x[1])) for x in sp['bounds']]
    hb = [(None if lb is None else float(lb), None if ub is None else float(ub)) for lb, ub in data.bounds]
    if hb != wb:
        bad('bounds differ from the declared bounds', {'got': hb, 'expected': wb})
        return
    # per-variable coefficient API
    vm = {v.name: v for v in got.variables}
    for n, x in zip(want_names, lp['c']):
        try:
            cf = analysis.extract_linear_coefficient(got.objective, vm[n])
        except Exception as e:
            bad('extract_linear_coefficient raises %s' % type(e).__name__)
            return
        if abs(float(cf) - fq(x)) > 1e-12 * (1 + abs(fq(x))):
            bad('extract_linear_coefficient differs from the true coefficient', {'var': n, 'got': float(cf), 'expected': fq(x)})
            return


def lpsite(pred):
    """Site signature for LP violations: which syntactic features the model's terms contain."""
    feats = set()

    def walk(t):
        k = t['k']
        if k in ('const', 'par'):
            return False
        if k == 'var':
            return True
        if k == 'un':
            hv = walk(t['a'])
            feats.add(t['f'])
            if not hv:
                feats.add('constexpr')
            return hv
        l = walk(t['l'])
        r = walk(t['r'])
        if not l and not r:
            feats.add('constexpr')
        if t['op'] == '**':
            feats.add('pow')
        if t['op'] == '/':
            feats.add('div')
        return l or r
    walk(pred['obj'])
    for c in pred['cons']:
        walk(c['den'])
    return 'LP[%s]' % ','.join(sorted(feats))


def run(report, tier):
    r = apirun.run_config(report, 'MC_C05', observer=observer, report_kinds=(),
                          overrides=None if tier == 'thorough' else {'ObjCands': '<- MC_ObjCandsQ'})
    check_code_table(r.log)
    if tier == 'thorough':
        apirun.run_config(report, 'MC_C05', cfg='MC_C05T', observer=observer, report_kinds=(), tag='T')
    return report.finish(
        rule='every program expression -> comparison -> Problem over the C05 signature of linear spellings: for each problem optyx treats '
             'as linear, LinearProgramExtractor.extract (variables, c, sense, A_ub, b_ub, A_eq, b_eq, bounds), extract_constant_term and '
             'extract_linear_coefficient are compared field by field with the LP computed by TLC from the exact normal form '
             '(the thorough config also model-checks C05_LPDenotes on a grid). distinct_nontrivial = distinct problems treated as LP.',
        exhaustive=True)
