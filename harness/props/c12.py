"""C12 - parameter updates are honoured by every later evaluation and solve."""
import warnings
import numpy as np
from fractions import Fraction as Fr
from .. import histrun, histgraph, concrete, recorder, apirun, progjudge, interp, common
from ..common import pviolation, bump
from ..interp import name_of, Irregular
from .c13 import validate_traces, history_site
from .c03 import setof

PROBES = [np.array([0.7, 1.1, 1.0, 0.9, 1.7]), np.array([2.5, 0.4, 2.0, 1.2, 0.3]), np.array([1.3, 1.45, 0.0, 2.2, 0.6])]


def capture_solve(rec, prob, method):
    """Solve with the real solver, capturing what is handed to minimize."""
    got = {}
    real = rec.real['minimize']

    def cap(fun, x0, **kw):
        got.setdefault('calls', []).append(dict(kw, fun=fun, x0=np.array(x0, dtype=float)))
        return real(fun, x0, **kw)
    rec.inner_minimize = cap
    try:
        out = concrete.outcome(lambda: prob.solve(method=method))
    finally:
        rec.inner_minimize = None
    return out, got.get('calls', [])


def seam_diff(a, b):
    """Compare the callables two solves handed to the solver, at probe points."""
    if len(a) != len(b):
        return 'number of solver entries differs (%d vs %d)' % (len(a), len(b))
    for ca, cb in zip(a[:1], b[:1]):
        n = len(ca['x0'])
        if not np.allclose(ca['x0'], cb['x0'], rtol=0, atol=1e-12):
            return 'starting point differs'
        ba, bb = ca.get('bounds'), cb.get('bounds')
        if (ba is None) != (bb is None) or (ba is not None and [tuple(map(float, t)) for t in ba] != [tuple(map(float, t)) for t in bb]):
            return 'bounds differ'
        for x in PROBES:
            if n > len(x):
                raise common.MachineryError('probe points shorter than the problem (%d variables)' % n)
            x = x[:n]
            for name in ('fun', 'jac', 'hess'):
                fa, fb = ca.get(name), cb.get(name)
                if (fa is None) != (fb is None):
                    return '%s presence differs' % name
                if fa is not None:
                    va, vb = np.asarray(fa(x), dtype=float), np.asarray(fb(x), dtype=float)
                    if va.shape != vb.shape or not np.allclose(va, vb, rtol=1e-10, atol=1e-12):
                        return 'objective %s handed to the solver reflects an old parameter value' % name
            consa, consb = list(ca.get('constraints') or ()), list(cb.get('constraints') or ())
            if len(consa) != len(consb):
                return 'number of constraints differs'
            for da, db in zip(consa, consb):
                for name in ('fun', 'jac'):
                    va, vb = np.asarray(da[name](x), dtype=float), np.asarray(db[name](x), dtype=float)
                    if va.shape != vb.shape or not np.allclose(va, vb, rtol=1e-10, atol=1e-12):
                        return 'constraint %s handed to the solver reflects an old parameter value' % name
    return None


def _cached_constraints(rp, calls):
    if not calls:
        return None
    cons = list(calls[0].get('constraints') or ())
    if not cons or len(cons) != len(rp.state['cons']):
        return None
    names = [v.name for v in rp.prob.variables]
    return cons, names, PROBES[-1][:len(names)].copy()


def touch_last_point(rp, calls):
    """Evaluate the cached constraint functions at one point (what the post-solve check / a warm start does last)."""
    cc = _cached_constraints(rp, calls)
    if cc:
        for d in cc[0]:
            try:
                d['fun'](cc[2].copy())
            except Exception:
                pass


def stale_at_last_point(rp, calls):
    """After Parameter.set, with nothing evaluated in between: the same point again. -> None or a description."""
    cc = _cached_constraints(rp, calls)
    if not cc:
        return None
    cons, names, x = cc
    vals = {n: float(x[i]) for i, n in enumerate(names)}
    for d, cid in zip(cons, rp.state['cons']):
        c = rp.w.cons[cid]
        want = float(np.asarray(c.expr.evaluate(vals)))
        if c.sense == '<=':
            want = -want
        try:
            have = float(np.asarray(d['fun'](x.copy())))
        except Exception:
            continue
        if abs(have - want) > 1e-9 * (1 + abs(want)):
            return 'constraint fun handed to the solver reflects an old parameter value'
    return None


def replay_chunk(idx, hists):
    import optyx
    part = {'violations': {}, 'counts': {}, 'evaluations': 0, 'traces_validated_against_impl': 0, 'nontrivial': set(),
            'samples': [], 'extra': {}, 'batch': []}
    rec = recorder.Recorder()
    rec.install()
    try:
        for h in hists:
            for kind in ('scalar', 'vector'):
                rp = concrete.Replay(kind)
                text = '; '.join(histgraph.op_str(o) for o in h)
                last_ca = None
                for i, op in enumerate(h):
                    if op['op'] != 'Solve':
                        if op['op'] in ('SetObjective', 'SubjectTo'):
                            last_ca = None
                        if op['op'] == 'SetParam' and last_ca:
                            touch_last_point(rp, last_ca)
                        try:
                            rp.apply(op)
                        except Exception as e:
                            bump(part, 'edit_raises', type(e).__name__)
                            break
                        if op['op'] == 'SetParam' and last_ca:
                            # the callables of the last solve stay cached; the point they were evaluated at last is evaluated
                            # again right after the update, with nothing in between (a warm start does exactly this)
                            d = stale_at_last_point(rp, last_ca)
                            if d:
                                pviolation(part, history_site(h, i), d, {'history': text, 'concretisation': kind, 'step': i})
                                break
                        continue
                    part['evaluations'] += 1
                    with warnings.catch_warnings():
                        warnings.simplefilter('ignore')
                        a, ca = capture_solve(rec, rp.prob, op['m'])
                        last_ca = ca
                        w2 = rp.w.rebuilt_with_constants()
                        f = optyx.Problem()
                        if rp.state['obj'] is not None:
                            (f.minimize if rp.state['sense'] == 'minimize' else f.maximize)(w2.objs[rp.state['obj']])
                        for cid in rp.state['cons']:
                            f.subject_to(w2.cons[cid])
                        b, cb = capture_solve(rec, f, op['m'])
                    diff = None
                    if a[0] != b[0] or (a[0] == 'raised' and a[1] != b[1]):
                        # the constant model may take another route (a Parameter has no degree): only outcomes of the same kind are compared
                        bump(part, 'route_differs_between_parameter_and_constant_model')
                    elif a[0] == 'solution':
                        same_route = bool(ca and cb and ca[0].get('method') == cb[0].get('method')) or (not ca and not cb)
                        if ca and cb and same_route:
                            diff = seam_diff(ca, cb)
                        if not same_route:
                            # a Parameter has no degree, so `auto` may pick another method for the constant model; on a
                            # non-convex model two methods may legitimately stop at different local optima
                            bump(part, 'route_differs_between_parameter_and_constant_model')
                        elif diff is None and a[1].status == b[1].status and a[1].status.value == 'optimal' and a[1].objective_value is not None:
                            if abs(a[1].objective_value - b[1].objective_value) > 1e-4 * (1 + abs(b[1].objective_value)):
                                diff = 'objective value differs from the model rebuilt with constants'
                        elif diff is None and a[1].status != b[1].status and ca and cb and ca[0].get('method') == cb[0].get('method'):
                            diff = 'status differs from the model rebuilt with constants'
                    if diff:
                        pviolation(part, history_site(h, i), diff, {'history': text, 'concretisation': kind, 'step': i})
                        break
                part['traces_validated_against_impl'] += 1
                part['nontrivial'].add(text)
            if len(part['samples']) < 1:
                part['samples'].append({'history': text})
    finally:
        rec.uninstall()
    part['batch'] = rec.batch()
    return part


def api_observer(got, pred, sp, call, sg, prog, ctx, part):
    """Callables compiled before Parameter.set are called after it: value, gradient, Jacobian, Hessian, evaluate."""
    if pred['kind'] != 'S' or not ctx.pars:
        return
    from .c01 import _pars
    from optyx.core import compiler, autodiff
    den = pred['den']
    pids = set(_pars(den))
    if not pids:
        return
    names = sorted(name_of(n) for n in setof(sp['vars']))
    if not names or len(names) > 3:
        return
    vm = ctx.varmap
    vars_ = [vm[n] for n in names]

    def bad(obs, detail=None):
        pviolation(part, sg, obs, {'program': prog, 'den': interp.term_str(den), 'detail': detail}, own=part['_own'], prefixes=part['_prefixes'])
    # 0 and 1 are the values algebraic simplifiers special-case: build every artefact while the parameter holds one of
    # them (and an ordinary value), then move it
    from .. import apiexec
    saved_par = ctx.parobjs
    try:
        for init in (Fr(1), Fr(0), None):
            # fresh objects for every initial value: derivative expressions are cached per expression object
            objs = progjudge.build_base(ctx)
            parobjs = {c['i']: objs[n + 1] for n, c in enumerate(ctx.base_calls) if c['c'] == 'MkPar'}
            for pid, (h, k, size) in ctx.parvec.items():
                parobjs[pid] = progjudge.VecElemSetter(objs[h], k)
            if init is not None:
                for pid in pids:
                    parobjs[pid].set(float(init))
            nb = len(ctx.base_calls)
            e = None
            for i, c in enumerate(ctx.cur_calls):
                e = apiexec.execute(c, objs)
                objs[nb + i + 1] = e
            vm2 = apirun.varmap(objs)
            ctx.parobjs = parobjs
            if _observe_after_set(e, den, sp, names, [vm2[n] for n in names], pids, ctx, part, bad):
                return
    finally:
        ctx.parobjs = saved_par


def _observe_after_set(got, den, sp, names, vars_, pids, ctx, part, bad):
    from optyx.core import compiler, autodiff
    try:
        saved = compiler._RECURSION_THRESHOLD
        try:
            compiler._compile_cached.cache_clear()
            compiler._RECURSION_THRESHOLD = 0
            f_it = compiler.compile_expression(got, vars_)
        finally:
            compiler._RECURSION_THRESHOLD = saved
            compiler._compile_cached.cache_clear()
        f = compiler.compile_expression(got, vars_)
        g = compiler.compile_gradient(got, vars_)
        J = autodiff.compile_jacobian([got], vars_)
        H = autodiff.compile_hessian(got, vars_)
        gs = [autodiff.gradient(got, v) for v in vars_]
    except Exception as e:
        bump(part, 'compile_raises_left_to_C01', type(e).__name__)
        return False
    D = {name_of(k): v for k, v in sp['D'].items()}
    Hs = {(name_of(k[0]), name_of(k[1])): v for k, v in sp['H'].items()} if isinstance(sp['H'], dict) else {}
    zero = {'k': 'const', 'q': [0, 1]}
    # the artefacts were built while every parameter held the initial value chosen by the caller (1, 0 or its own);
    # bring all of them to their declared values first (itself an update after compiling), then vary one at a time
    for pid in pids:
        ctx.parobjs[pid].set(float(ctx.pars[pid]))
    for pid in pids:
        old = ctx.pars[pid]
        for new in (old + Fr(3, 4), old - Fr(1, 2), old):
            ctx.parobjs[pid].set(float(new))
            pars2 = dict(ctx.pars)
            pars2[pid] = new
            try:
                for pt in ctx.points[:4]:
                    if not interp.regular_for_derivative(den, pt, pars2) or not all(interp.regular_for_derivative(D[n], pt, pars2) for n in names):
                        continue
                    x = np.array([float(pt[n]) for n in names], dtype=float)
                    vals = progjudge.fvals(pt)
                    try:
                        wv = progjudge.oracle(den, pt, pars2)
                        wg = [progjudge.oracle(D[n], pt, pars2) for n in names]
                        wh = [[progjudge.oracle(Hs.get((a, b), zero), pt, pars2) for b in names] for a in names]
                    except Irregular:
                        continue
                    part['evaluations'] += 1
                    obs = [('compiled value', [progjudge.tofloat(f(x))], [wv]),
                           ('compiled value (iterative compiler)', [progjudge.tofloat(f_it(x))], [wv]),
                           ('evaluate', [progjudge.tofloat(got.evaluate(vals))], [wv]),
                           ('compiled gradient', list(np.asarray(g(x), dtype=float).reshape(-1)), wg),
                           ('compiled Jacobian', list(np.asarray(J(x), dtype=float).reshape(-1)), wg),
                           ('symbolic gradient', [progjudge.tofloat(e.evaluate(vals)) for e in gs], wg),
                           ('compiled Hessian', list(np.asarray(H(x), dtype=float).reshape(-1)), [c for r in wh for c in r])]
                    for what, have, want in obs:
                        if len(have) != len(want) or any(not interp.close(float(a), w, t) for a, (w, t) in zip(have, want)):
                            bad('%s computed before Parameter.set does not follow the new value' % what,
                                {'parameter': float(new), 'got': [float(a) for a in have], 'expected': [w for w, _ in want]})
                            return True
            except Exception as e:
                bad('callable raises %s after Parameter.set' % type(e).__name__)
                return True
            finally:
                ctx.parobjs[pid].set(float(old))
    return False


def run(report, tier):
    histrun.model_check(report)
    g = histrun.history_graph(report)
    rng = common.rng('C12')
    triples = [h for h in g.triples() if any(o['op'] == 'SetParam' for o in h) and h[-1]['op'] == 'Solve'
               and any(o['op'] == 'SetObjective' and o['obj']['id'] in (4, 8) for o in h)]
    report.extra['setparam_histories_in_model'] = len(triples)
    from .. import histgraph
    sample, report.extra['strata (fill, edit, observation) covered'] = histgraph.stratified(triples, 500 if tier == 'quick' else 6000, rng)
    batch = []
    for part in histrun.parallel(replay_chunk, sample, chunk=10):
        batch += part.pop('batch')
        report.merge(part)
    validate_traces(report, batch, 'C12 histories', keep=('params_current',))
    from .. import suitetrace
    suitetrace.validate(report, keep=('params_current',))
    apirun.run_config(report, 'MC_C12', observer=api_observer, report_kinds=())
    if tier == 'thorough':
        apirun.run_config(report, 'MC_C01', observer=api_observer, report_kinds=(), overrides={'Want': '<-MC_WantH', 'Fns': '<-MC_FnsSmall'}, tag='C01')
    return report.finish(
        rule='Solve.tla model-checked (C12_NoFrozenParam, C13_SolveFresh: no artefact snapshots a parameter). Histories of the model graph '
             'that contain SetParam and end in a solve of the parameterised objective are replayed; each solve is compared AT THE SOLVER SEAM '
             '(x0, bounds, fun / jac / hess and every constraint fun / jac at probe points) and in outcome with a model rebuilt with '
             'Constant(current value); traces validated (params_current). Api level: value / evaluate / gradient / Jacobian / Hessian '
             'callables compiled before Parameter.set are called after it, for every TLC-enumerated program containing the parameter.',
        exhaustive=False)
