"""C11 - vector and matrix modelling operations denote their NumPy counterparts."""
from .. import apirun


def run(report, tier):
    apirun.run_config(report, 'MC_C11')
    apirun.run_config(report, 'MC_C11M')
    if tier == 'thorough':
        apirun.run_config(report, 'MC_C11', overrides={'MaxCalls': 3}, tag='deep')
    return report.finish(
        rule='every Api program of <= MaxCalls calls over the C11 signature (TLC BFS, all states dumped) is executed on '
             'optyx; after the newest call: raised-or-not, element names and values at 5 rational points are compared with '
             'the exact denotation. distinct_nontrivial = distinct programs with >= 1 call.',
        exhaustive=True)
