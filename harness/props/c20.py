"""C20 - a failed or interrupted solve leaves the process and the problem intact."""
import sys, warnings
from .. import schedrun, histrun, common, scenario, concrete, recorder, tlc, tlaparse
from ..common import pviolation, bump
from .c13 import validate_traces


def judge(part, b, res, text, site, kind):
    if not res['fired']:
        bump(part, 'behaviours_without_fault_reached')
        return
    exc = next(e['exc'] for e in b['sched'] if e['e'] == 'raise')
    out = res['outcome']
    st = schedrun.site_of(b) + '{%s@%s}' % (exc, site.split('@')[0])
    ex = {'behaviour': text, 'concretisation': kind, 'observed': out}
    if not res['hook_ok']:
        pviolation(part, st, 'warnings.showwarning not restored after the fault', ex)
    if not res['reclimit_ok']:
        pviolation(part, st, 'recursion limit not restored after the fault', ex)
    if out not in (('solution', 'failed'), ('raised', exc)):
        pviolation(part, st, 'a fault ends neither in a FAILED solution nor in the propagated exception (%s %s)' % out, ex)
    if res['after']:
        pviolation(part, st, 'the next solve differs from the baseline: ' + res['after'].split(':')[0].split('(')[0].strip(), dict(ex, detail=res['after']))


def stage_chunk(idx, items):
    """Faults in the build stages (variable discovery, solver-cache build, Hessian compilation, LP extraction)
    and inside increased_recursion_limit bodies."""
    import optyx
    import optyx.solvers.scipy_solver as ss
    import optyx.core.autodiff as ad
    import optyx.analysis as an
    part = {'violations': {}, 'counts': {}, 'evaluations': 0, 'traces_validated_against_impl': 0, 'nontrivial': set(),
            'samples': [], 'extra': {}, 'batch': []}
    rec = recorder.Recorder()
    rec.install()
    try:
        for stage, excname, method, objid, cons_ids, kind in items:
            exc = RecursionError if excname == 'RecursionError' else scenario.EXC[excname]
            w, prob = scenario.build(kind, objid, cons_ids)
            hook0, rl0 = warnings.showwarning, sys.getrecursionlimit()

            def boom(*a, **k):
                raise exc('injected in ' + stage)
            saved = None
            badkw = {}
            if stage.startswith('kwarg:'):
                # the fault comes from a pass-through keyword the underlying solver rejects (no monkeypatching at all)
                badkw = {'callback': {'callback': (lambda *a, **k: None)}, 'bogus': {'no_such_option_': 1},
                         'integrality': {'integrality': [1] * 17}}[stage.split(':')[1]]
                saved = (ss, '_build_solver_cache', ss._build_solver_cache)
                boom = ss._build_solver_cache
            elif stage.startswith('compile_expression@') or stage.startswith('compile_jacobian@'):
                # the k-th compilation inside the cache builder fails: a partly built cache must not be left behind
                import optyx.core.compiler as cc
                name, k = stage.split('@')
                mod = cc if name == 'compile_expression' else ad
                orig = getattr(mod, name)
                count = {'n': 0}

                def boom(*a, _o=orig, **kw):
                    count['n'] += 1
                    if count['n'] == int(k):
                        raise exc('injected in %s' % stage)
                    return _o(*a, **kw)
                saved = (mod, name, orig)
            elif stage == 'compile_hessian':
                saved = (ad, 'compile_hessian', ad.compile_hessian)
            elif stage == 'build_solver_cache':
                saved = (ss, '_build_solver_cache', ss._build_solver_cache)
            elif stage == 'lp_extract':
                saved = (an.LinearProgramExtractor, 'extract', an.LinearProgramExtractor.extract)
            setattr(saved[0], saved[1], boom)
            try:
                with warnings.catch_warnings():
                    warnings.simplefilter('ignore')
                    try:
                        s = prob.solve(method=method, **badkw)
                        out = ('solution', s.status.value)
                    except BaseException as e:
                        out = ('raised', type(e).__name__)
            finally:
                setattr(saved[0], saved[1], saved[2])
            part['evaluations'] += 1
            part['traces_validated_against_impl'] += 1
            text = 'obj%d cons%s solve(%s) with %s raising %s' % (objid, cons_ids, method, stage, excname)
            part['nontrivial'].add(text)
            st = 'Stage(%s){%s}' % (stage, excname)
            ex = {'scenario': text, 'concretisation': kind, 'observed': out}
            if warnings.showwarning is not hook0:
                pviolation(part, st, 'warnings.showwarning not restored after the fault', ex)
            if sys.getrecursionlimit() != rl0:
                pviolation(part, st, 'recursion limit not restored after the fault', ex)
            with warnings.catch_warnings():
                warnings.simplefilter('ignore')
                a = concrete.outcome(lambda: prob.solve(method=method))
                f = optyx.Problem().minimize(w.objs[objid])
                for c in cons_ids:
                    f.subject_to(w.cons[c])
                b = concrete.outcome(lambda: f.solve(method=method))
            d = concrete.compare(a, b)
            if d:
                pviolation(part, st, 'the next solve differs from the baseline: ' + d.split(':')[0].split('(')[0].strip(), dict(ex, detail=d))
        # increased_recursion_limit restores the limit on every exit path
        from optyx.core.autodiff import increased_recursion_limit
        for excname in ('ValueError', 'KeyboardInterrupt', 'RecursionError'):
            rl0 = sys.getrecursionlimit()
            try:
                with increased_recursion_limit():
                    inside = sys.getrecursionlimit()
                    raise {'RecursionError': RecursionError}.get(excname, scenario.EXC.get(excname, ValueError))('injected')
            except BaseException:
                pass
            part['evaluations'] += 1
            if sys.getrecursionlimit() != rl0:
                pviolation(part, 'increased_recursion_limit{%s}' % excname, 'recursion limit not restored after the fault', {'inside': inside})
    finally:
        rec.uninstall()
    part['batch'] = rec.batch()
    return part


# ---- the recursion limit around solves (RecLimit.tla) ------------------------------------------
class _Interrupt(BaseException):
    pass


def reclimit_replay(h):
    """Run one behaviour of RecLimit.tla: nested `with increased_recursion_limit(N)` blocks (fresh objects) and calls of a
    routine decorated with ONE kept increased_recursion_limit(N) object, with solves inside.  -> None or a description."""
    import optyx
    from optyx import increased_recursion_limit
    base = sys.getrecursionlimit()
    raised = base + 700
    shared = increased_recursion_limit(raised)
    trouble = []

    def solve(outcome):
        x = optyx.Variable('x', lb=-4, ub=4)
        y = optyx.Variable('y', lb=-4, ub=4)
        p = optyx.Problem().minimize((x - 1) ** 2 + (y + 0.5) ** 2 + optyx.exp(0.1 * x))
        calls = [0]

        def cb(*a, **k):
            calls[0] += 1
            if outcome == 'failed':
                raise ValueError('injected')
            if outcome == 'raises':
                raise _Interrupt()
        import warnings
        with warnings.catch_warnings():
            warnings.simplefilter('ignore')
            if outcome == 'ok':
                s = p.solve(method='L-BFGS-B')
                if s.status.value != 'optimal':
                    trouble.append('plain solve inside the block is %s' % s.status.value)
            else:
                s = p.solve(method='L-BFGS-B', callback=cb)
                if outcome == 'failed' and s.status.value != 'failed':
                    trouble.append('a callback raising ValueError gives status %s' % s.status.value)

    def level(i, depth):
        """Interpret h from position i inside `depth` open blocks; returns the position after this block's Exit."""
        while i < len(h):
            op, arg = h[i]
            want = raised if depth > 0 else base
            if sys.getrecursionlimit() != want:
                trouble.append('limit %d at depth %d before %s (expected %d)' % (sys.getrecursionlimit(), depth, op, want))
            if op == 'Enter':
                if arg == 'fresh':
                    with increased_recursion_limit(raised):
                        i = level(i + 1, depth + 1)
                else:
                    @shared
                    def routine():
                        return level(i + 1, depth + 1)
                    i = routine()
            elif op == 'Exit':
                return i + 1
            else:
                solve(arg)
                i += 1
        return i
    hook0 = __import__('warnings').showwarning
    try:
        level(0, 0)
    except _Interrupt:
        pass
    finally:
        after = sys.getrecursionlimit()
        sys.setrecursionlimit(base)
    if after != base:
        return 'recursion limit is %d after every block was left (was %d before)' % (after, base)
    if __import__('warnings').showwarning is not hook0:
        return 'warnings.showwarning not restored'
    if trouble:
        return trouble[0]
    return None


def reclimit_chunk(idx, hists):
    part = {'violations': {}, 'counts': {}, 'evaluations': 0, 'traces_validated_against_impl': 0, 'nontrivial': set(),
            'samples': [], 'extra': {}}
    for h in hists:
        d = reclimit_replay(h)
        part['evaluations'] += len(h)
        part['traces_validated_against_impl'] += 1
        text = ' ; '.join('%s(%s)' % (o, a) if a else o for o, a in h)
        part['nontrivial'].add(text)
        if d:
            shape = '/'.join(a for o, a in h if o == 'Enter')
            outs = '/'.join(sorted(set(a for o, a in h if o == 'Solve')))
            pviolation(part, 'increased_recursion_limit{%s}{solves: %s}' % (shape, outs), d.split(' (')[0].split(' at depth')[0], {'behaviour': text, 'detail': d})
        if len(part['samples']) < 1:
            part['samples'].append({'behaviour': text})
    return part


def reclimit_histories(report, tier):
    wd = tlc.workdir()
    try:
        r = tlc.run('RecLimit', wd=wd, dump=True, overrides={'MaxOps': 6 if tier == 'quick' else 7})
        report.add_tlc(r)
        hs = set()
        for txt in tlaparse.iter_states(r.dump):
            st = tlaparse.parse_state(txt)
            h = tuple(tuple(x) for x in st['hist'])
            if h and not st['stack'] and any(o == 'Enter' for o, _ in h) and any(o == 'Solve' for o, _ in h):
                hs.add(h)
    finally:
        tlc.cleanup(wd)
    hs = sorted(hs)
    report.extra['reclimit_behaviours_in_model'] = len(hs)
    if tier == 'quick':
        # one behaviour of every (nesting shape, set of solve outcomes) stratum + a seeded fill
        rng = common.rng('C20rl')
        groups = {}
        for h in hs:
            groups.setdefault(('/'.join(a for o, a in h if o == 'Enter'), '/'.join(sorted(set(a for o, a in h if o == 'Solve')))), []).append(h)
        pick = [rng.choice(groups[k]) for k in sorted(groups)]
        rest = [h for h in hs if h not in set(pick)]
        hs = pick + rng.sample(rest, min(150, len(rest)))
    return [list(h) for h in hs]


def run(report, tier):
    for part in histrun.parallel(reclimit_chunk, reclimit_histories(report, tier), chunk=12):
        report.merge(part)
    histrun.model_check(report)
    scheds = [b for b in schedrun.schedules(report) if any(e['e'] == 'raise' for e in b['sched'])]
    if tier == 'quick':
        # every (route, method family, exception, first/retry position) combination; strict adds nothing to faults
        scheds = [b for b in scheds if not b['sched'][0]['strict'] and b['obj'] in (3, 1)]
    batch = []
    sites = scenario.SITES if tier == 'thorough' else ('entry', 'fun@1', 'jac@1', 'cfun@1', 'hess@1')
    kinds = ('scalar', 'vector') if tier == 'thorough' else ('scalar',)
    for part in histrun.parallel(schedrun.replay_chunk_factory(sites, judge, kinds), scheds, chunk=6):
        batch += part.pop('batch')
        part.pop('labels')
        report.merge(part)
    validate_traces(report, batch, 'C20 fault schedules', keep=('hook_restored', 'reclimit_restored'))
    items = [(stage, exc, m, o, c, kind)
             for stage, m, o, c in (('compile_hessian', 'trust-constr', 3, [11]), ('build_solver_cache', 'SLSQP', 3, [11]),
                                    ('compile_expression@1', 'SLSQP', 3, [11]), ('compile_expression@2', 'SLSQP', 3, [11, 12]),
                                    ('compile_expression@3', 'trust-constr', 4, [11, 12]), ('compile_jacobian@1', 'SLSQP', 3, [11]),
                                    ('compile_jacobian@2', 'SLSQP', 3, [11, 12]), ('compile_jacobian@3', 'SLSQP', 4, [12, 11]),
                                    ('build_solver_cache', 'auto', 4, []), ('lp_extract', 'auto', 1, [11]), ('lp_extract', 'linprog', 2, []),
                                    ('kwarg:callback', 'auto', 1, [11]), ('kwarg:callback', 'highs-ds', 2, []), ('kwarg:integrality', 'linprog', 1, [11]),
                                    ('kwarg:bogus', 'SLSQP', 3, [11]), ('kwarg:bogus', 'auto', 4, []))
             for exc in ('ValueError', 'MemoryError', 'KeyboardInterrupt', 'RecursionError') for kind in ('scalar', 'vector')]
    batch = []
    for part in histrun.parallel(stage_chunk, items, chunk=4):
        batch += part.pop('batch')
        report.merge(part)
    validate_traces(report, batch, 'C20 stage faults', keep=('hook_restored', 'reclimit_restored'))
    from .. import suitetrace
    suitetrace.validate(report, keep=('hook_restored', 'reclimit_restored'))
    return report.finish(
        rule='TLC enumerates every complete solve behaviour of MC_Sched containing a fault (route x method x exception class in {ValueError, '
             'FloatingPointError, MemoryError, KeyboardInterrupt} x first entry / SLSQP retry in progress); each is replayed with the fault '
             'injected at the solver entry and at the k-th fun / jac / hess / constraint fun / constraint jac evaluation of the real '
             'solver; afterwards: warnings.showwarning identity, recursion limit, outcome (FAILED solution or the propagated exception) and '
             'the next solve against a fresh-problem baseline; build-stage faults likewise. All executions are validated against TraceSolve.tla. '
             'RecLimit.tla (C20_LimitRestored): every behaviour of nested increased_recursion_limit entries - fresh context objects and one kept object '
             'used as a decorator on a self-calling routine - with solves that succeed, fail or let a BaseException through is replayed; the limit '
             'is checked before every step and after the outermost exit.',
        exhaustive=True)
