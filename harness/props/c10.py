"""C10 - constraints mean the relation the user wrote, also inside the solver."""
import numpy as np
from fractions import Fraction as Fr
from .. import apirun, progjudge, interp
from ..common import pviolation, bump
from ..interp import name_of, Irregular


def natkey(s):
    import re
    return [int(t) if t.isdigit() else t for t in re.split(r'(\d+)', s)]


def observer(got, pred, sp, call, sg, prog, ctx, part):
    k = pred['kind']
    if k not in ('C', 'CL'):
        return
    cons_pred = [{'den': pred['den'], 'sense': pred['sense']}] if k == 'C' else pred['cons']
    cons_got = [got] if k == 'C' else list(got)

    def bad(obs, detail=None):
        pviolation(part, sg, obs, {'program': prog, 'constraints': ['%s %s 0' % (interp.term_str(c['den']), c['sense']) for c in cons_pred], 'detail': detail},
                   own=part['_own'], prefixes=part['_prefixes'])

    if len(cons_got) != len(cons_pred):
        bad('number of constraints: %d, expected %d' % (len(cons_got), len(cons_pred)))
        return
    # (1) evaluate / violation / is_satisfied, exactly, at rational points
    from fractions import Fraction
    names_ = sorted(ctx.points[0]) if ctx.points else []
    # integer-valued points handed over as Python ints (a constraint's meaning must not depend on the NumPy dtype its
    # right-hand side happened to have: no wrap-around, no half-precision rounding)
    int_points = [{n: Fraction(v) for n in names_} for v in (2, 2049)] + [{n: Fraction((7, 0, -1, 300)[k % 4]) for k, n in enumerate(names_)}]
    for i, (c, cp) in enumerate(zip(cons_got, cons_pred)):
        for pt in list(ctx.points) + int_points:
            try:
                if interp.is_rational_fragment(cp['den']):
                    val = interp.eval_exact(cp['den'], pt, ctx.pars)
                    tol = 1e-12 * (1 + abs(float(val)))
                else:
                    val, tol = progjudge.oracle(cp['den'], pt, ctx.pars)
                    val = Fr(val)
            except (Irregular, TypeError):
                continue
            viol = max(Fr(0), val) if cp['sense'] == '<=' else max(Fr(0), -val) if cp['sense'] == '>=' else abs(val)
            vals = progjudge.fvals(pt)
            if pt in int_points:
                vals = {k: int(v) for k, v in pt.items()}
            try:
                have_v = float(c.violation(vals))
                have_e = float(c.evaluate(vals))
                have_s = bool(c.is_satisfied(vals))
            except Exception as e:
                bad('constraint evaluation raises %s' % type(e).__name__, {'element': i})
                return
            part['evaluations'] += 1
            ltol = max(tol, ctx.looser * (1 + abs(float(val))))
            if not interp.close(have_v, float(viol), ltol):
                bad('violation() differs from the amount by which the written relation fails',
                    {'element': i, 'got': have_v, 'expected': float(viol), 'point': {a: str(b) for a, b in pt.items()}})
                return
            # the stored form may be normalised either way round (3 <= x is x >= 3): same relation
            same = c.sense == cp['sense'] and interp.close(have_e, float(val), ltol)
            flipped = cp['sense'] != '==' and c.sense != '==' and c.sense != cp['sense'] and interp.close(have_e, -float(val), ltol)
            eqflip = cp['sense'] == '==' and c.sense == '==' and interp.close(abs(have_e), abs(float(val)), ltol)
            if not (same or flipped or eqflip):
                bad('stored constraint is not (lhs - rhs) sense 0 for the written relation', {'element': i, 'sense': c.sense, 'got': have_e, 'expected': float(val)})
                return
            if abs(float(viol) - 1e-8) > 1e-9 and have_s != (float(viol) <= 1e-8):
                bad('is_satisfied() disagrees with the written relation', {'element': i, 'violation': float(viol), 'got': have_s})
                return
    # (2) what the nonlinear solver is handed: captured at the minimize seam
    import optyx
    import optyx.solvers.scipy_solver as ss
    from scipy.optimize import OptimizeResult
    captured = {}

    def stub(fun, x0, **kw):
        captured.update(kw)
        captured['x0'] = x0
        return OptimizeResult(x=np.asarray(x0, dtype=float), success=True, message='stub', fun=float(fun(x0)), nit=0, status=0)

    if not any((c['vars'][1] if isinstance(c['vars'], tuple) else c['vars']) for c in sp):
        bump(part, 'constraints_without_variables')
        return
    want_vars = sorted(set(name_of(n) for c in sp for n in (c['vars'][1] if isinstance(c['vars'], tuple) else c['vars'])), key=natkey)
    # the same constraint object(s) used in three problems whose variable lists have different lengths / orders:
    # no extra variable, one sorting before all names, one sorting after
    for extra in (None, 'AA0', 'zz9'):
        captured.clear()
        ev = None if extra is None else optyx.Variable(extra, lb=-1, ub=1)
        prob = optyx.Problem().minimize(optyx.Constant(0.0) if ev is None else ev * 1.0)
        try:
            prob.subject_to(got)
        except Exception as e:
            bad('subject_to raises %s' % type(e).__name__)
            return
        real = ss.minimize
        ss.minimize = stub
        try:
            prob.solve(method='SLSQP')
        except Exception as e:
            bad('solve raises %s' % type(e).__name__)
            return
        finally:
            ss.minimize = real
        sc = list(captured.get('constraints') or ())
        V = [v.name for v in prob.variables]
        if sorted(V) != sorted(want_vars + ([extra] if extra else [])):
            bump(part, 'variable_list_differs_left_to_C16')
            return
        r = seam_check(sc, sp, V, extra, ctx, part, bad)
        if r:
            return


def seam_check(sc, sp, V, extra, ctx, part, bad):
    from fractions import Fraction as Fr
    if len(sc) != len(sp):
        bad('solver receives %d constraints, expected %d' % (len(sc), len(sp)))
        return True
    for i, (d, want) in enumerate(zip(sc, sp)):
        if d.get('type') != want['type']:
            bad('solver constraint type %r, expected %r' % (d.get('type'), want['type']), {'element': i})
            return True
        pts = [pt for pt in ctx.points if interp.regular_for_derivative(want['fun'], pt, ctx.pars)][:3]
        for pt in pts:
            ptx = dict(pt)
            if extra:
                ptx[extra] = Fr(1, 3)
            x = np.array([float(ptx[n]) for n in V], dtype=float)
            try:
                wf, tf = progjudge.oracle(want['fun'], pt, ctx.pars)
                wj = [(0.0, 1e-12) if n == extra else progjudge.oracle(next(t for kk, t in want['jac'].items() if name_of(kk) == n), pt, ctx.pars) for n in V]
            except Irregular:
                continue
            try:
                hf = float(d['fun'](x))
                hj = np.asarray(d['jac'](x), dtype=float).reshape(-1)
            except Exception as e:
                bad('solver constraint callable raises %s' % type(e).__name__, {'element': i})
                return True
            part['evaluations'] += 1
            if not interp.close(hf, wf, max(tf, ctx.looser * (1 + abs(wf)))):
                bad('function handed to the solver is not >= 0 exactly where the relation holds', {'element': i, 'got': hf, 'expected': wf})
                return True
            if len(hj) != len(wj) or any(not interp.close(float(a), w, max(t, ctx.looser * (1 + abs(w)))) for a, (w, t) in zip(hj, wj)):
                bad('Jacobian handed to the solver is not the derivative of its function', {'element': i, 'got': [float(a) for a in hj], 'expected': [w for w, _ in wj], 'V': V})
                return True
    return False

def run(report, tier):
    apirun.run_config(report, 'MC_C10', observer=observer, report_kinds=('C', 'CL'))
    apirun.run_config(report, 'MC_C10M', observer=observer, report_kinds=('C', 'CL'))
    if tier == 'thorough':      # two expression-building calls before the comparison, reduced literal alphabet
        apirun.run_config(report, 'MC_C10', observer=observer, report_kinds=('C', 'CL'), tag='deep',
                          overrides={'MaxCalls': 3, 'ScalarLits': '<-MC_ScalarLitsSmall', 'ArrayLits': '<-MC_ArrayLitsSmall', 'Senses': '<-MC_SensesSmall'})
    return report.finish(
        rule='every Api program of <= MaxCalls calls over the C10 signature ending in a comparison (scalar / vector / vector-expression '
             'lhs x Python and NumPy scalars, parameters, expressions, vectors, lists, 1-D and 2-D arrays x three senses x reflected): '
             'evaluate / violation / is_satisfied at rational points (exact), then one solve through a stubbed minimize seam to '
             'capture type, fun and jac of every solver constraint, compared with the spec (fun >= 0 on the satisfied set, jac = D fun).',
        exhaustive=True)
