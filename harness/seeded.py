"""Evaluate seeded breaking changes (written by independent sub-agents) against the checks.

  python -m harness.seeded verify <worktree> <id> <property>   confirm the three claims and store under seeded/<id>/
  python -m harness.seeded run [ids...]                         apply each stored patch to a scratch copy, run the property's check
"""
import json, os, shutil, subprocess, sys, tempfile, time

ROOT = os.path.dirname(os.path.dirname(os.path.abspath(__file__)))
PY = '/venv/bin/python'


def sh(cmd, **kw):
    return subprocess.run(cmd, shell=True, capture_output=True, text=True, **kw)


def verify(wt, sid, prop):
    """The stored artefact is seed/patch.diff: it is applied to a scratch copy of /repo (not taken from the worktree's state)."""
    seed = os.path.join(wt, 'seed')
    out = {'id': sid, 'property': prop, 'ran': []}
    scratch = tempfile.mkdtemp(prefix='optyxverif-seedv-')
    try:
        shutil.copytree('/repo/src', os.path.join(scratch, 'src'))
        shutil.copytree('/repo/tests', os.path.join(scratch, 'tests'))
        for f in ('pyproject.toml',):
            shutil.copy(os.path.join('/repo', f), scratch)
        ap = sh('git init -q . && git apply %s' % os.path.join(seed, 'patch.diff'), cwd=scratch)
        out['patch_applies'] = ap.returncode == 0
        if ap.returncode != 0:
            out['confirmed'] = False
            out['error'] = ap.stderr[-300:]
            return out
        r = sh('cd %s && PYTHONPATH=%s/src %s -m pytest -q -p no:cacheprovider -n 8 2>&1 | tail -1' % (scratch, scratch, PY), timeout=900)
        out['tests_with_change'] = r.stdout.strip()
        out['ran'].append('pytest on a scratch copy of /repo with seed/patch.diff applied')
        if 'failed' in r.stdout:       # wall-clock timing tests flake under load: rerun once
            r = sh('cd %s && PYTHONPATH=%s/src %s -m pytest -q -p no:cacheprovider -n 4 2>&1 | tail -1' % (scratch, scratch, PY), timeout=900)
            out['tests_with_change_rerun'] = r.stdout.strip()
        a = sh('PYTHONPATH=%s/src %s %s/demo.py' % (scratch, PY, seed), timeout=900)
        b = sh('PYTHONPATH=/repo/src %s %s/demo.py' % (PY, seed), timeout=900)
        out['demo_exit_with_change'] = a.returncode
        out['demo_exit_without_change'] = b.returncode
        out['ran'] += ['demo.py with the change (exit %d)' % a.returncode, 'demo.py on /repo/src (exit %d)' % b.returncode]
        last = out.get('tests_with_change_rerun') or out['tests_with_change']
        passed = 'passed' in last and 'failed' not in last
        out['confirmed'] = bool(passed and a.returncode != 0 and b.returncode == 0)
        out['needs'] = ''
        notes = os.path.join(seed, 'notes.md')
        if os.path.exists(notes):
            out['needs'] = open(notes).read()[:1500]
        if out['confirmed']:
            dst = os.path.join(ROOT, 'seeded', sid)
            os.makedirs(dst, exist_ok=True)
            shutil.copy(os.path.join(seed, 'patch.diff'), dst)
            shutil.copy(os.path.join(seed, 'demo.py'), dst)
            if os.path.exists(notes):
                shutil.copy(notes, dst)
            json.dump(out, open(os.path.join(dst, 'meta.json'), 'w'), indent=1)
        return out
    finally:
        shutil.rmtree(scratch, ignore_errors=True)


def run(ids=None, tier='quick'):
    res = {}
    base = os.path.join(ROOT, 'seeded')
    for sid in sorted(os.listdir(base)):
        if ids and sid not in ids:
            continue
        meta_p = os.path.join(base, sid, 'meta.json')
        if not os.path.exists(meta_p):
            continue
        meta = json.load(open(meta_p))
        if meta.get('superseded_by_fix'):
            print(sid, 'superseded by a repair of /repo:', meta['superseded_by_fix'][:80], flush=True)
            continue
        scratch = tempfile.mkdtemp(prefix='optyxverif-seed-')
        outdir = tempfile.mkdtemp(prefix='optyxverif-out-')
        try:
            shutil.copytree('/repo/src', os.path.join(scratch, 'src'))
            sh('git init -q . && git apply %s' % os.path.join(base, sid, 'patch.diff'), cwd=scratch)
            ap = sh('cd %s && patch -p1 --dry-run < %s' % (scratch, os.path.join(base, sid, 'patch.diff')))
            t0 = time.time()
            p = subprocess.run([PY, os.path.join(ROOT, 'check'), meta['property'], '--tier', tier, '--repo', scratch], capture_output=True, text=True,
                               cwd=ROOT, env=dict(os.environ, VERIF_OUT=outdir), timeout=3000)
            first = [l.strip() for l in p.stdout.splitlines() if 'identity:' in l][:3]
            res[sid] = {'property': meta['property'], 'exit': p.returncode, 'caught': p.returncode == 1, 'first': first, 'wall_s': round(time.time() - t0, 1),
                        'tail': p.stdout.strip().splitlines()[-1:] }
            meta['check_result'] = res[sid]
            json.dump(meta, open(meta_p, 'w'), indent=1)
            print(sid, res[sid]['exit'], res[sid]['wall_s'], first[:1], flush=True)
        finally:
            shutil.rmtree(scratch, ignore_errors=True)
            shutil.rmtree(outdir, ignore_errors=True)
    return res


if __name__ == '__main__':
    if sys.argv[1] == 'verify':
        print(json.dumps(verify(sys.argv[2], sys.argv[3], sys.argv[4]), indent=1)[:1500])
    else:
        run(sys.argv[2:] or None)
