"""Running TLC on the specification and collecting its statistics."""
import os, re, shutil, subprocess, tempfile, time

SPEC = os.path.join(os.path.dirname(os.path.dirname(os.path.abspath(__file__))), 'spec')
JAR = '/opt/veriftools/tla/tla2tools.jar:/opt/veriftools/tla/CommunityModules-deps.jar'


class TLCError(Exception):
    pass


class TLCRun:
    def __init__(self):
        self.generated = 0
        self.distinct = 0
        self.depth = 0
        self.log = ''
        self.dump = None
        self.workdir = None
        self.wall = 0.0
        self.violated = None     # name of a violated invariant, if any
        self.simfiles = []

    @property
    def transitions(self):
        return max(0, self.generated - 1)


def workdir(prefix='optyxverif-'):
    d = tempfile.mkdtemp(prefix=prefix)
    for f in os.listdir(SPEC):
        if f.endswith('.tla') or f.endswith('.cfg'):
            shutil.copy(os.path.join(SPEC, f), d)
    return d


def run(module, cfg=None, wd=None, dump=False, workers=16, timeout=1800, simulate=None, depth=None,
        seed=None, overrides=None, env=None, coverage=False, expect_violation=False, dumpdot=False, heap='8g'):
    """Run TLC. `overrides`: dict of CONSTANT replacements applied to a copy of the cfg
    (lines 'Name = value' or 'Name <- value')."""
    r = TLCRun()
    own = wd is None
    if own:
        wd = workdir()
    r.workdir = wd
    cfg = cfg or module
    cfgpath = os.path.join(wd, cfg + '.cfg')
    if overrides:
        txt = open(cfgpath).read()
        for k, v in overrides.items():
            txt, n = re.subn(r'(?m)^(\s*)%s\s*(=|<-)\s*.*$' % re.escape(k), lambda m: '%s%s %s %s' % (m.group(1), k, '<-' if str(v).startswith('<-') else '=', str(v).lstrip('<- ')), txt)
            if n == 0:
                raise TLCError('override %s not found in %s' % (k, cfg))
        cfgpath = os.path.join(wd, cfg + '_ovr.cfg')
        open(cfgpath, 'w').write(txt)
    meta = os.path.join(wd, 'meta-' + cfg + str(time.time_ns()))
    cmd = ['java', '-XX:+UseParallelGC', '-Xmx' + heap, '-Djava.io.tmpdir=' + wd, '-cp', JAR, 'tlc2.TLC', '-workers', str(workers), '-metadir', meta,
           '-noGenerateSpecTE', '-config', cfgpath]
    if dump:
        r.dump = os.path.join(wd, cfg + '.dump')
        cmd += ['-dump', r.dump[:-5]]
    if dumpdot:
        r.dump = os.path.join(wd, cfg + '.dot')
        cmd += ['-dump', 'dot,actionlabels', r.dump[:-4]]
    if simulate:
        simdir = os.path.join(wd, 'sim-' + cfg)
        os.makedirs(simdir, exist_ok=True)
        cmd += ['-simulate', 'file=%s/tr,num=%d' % (simdir, simulate)]
        if depth:
            cmd += ['-depth', str(depth)]
    if seed is not None:
        cmd += ['-seed', str(seed)]
    if coverage:
        cmd += ['-coverage', '1']
    cmd += [module + '.tla']
    t0 = time.time()
    e = dict(os.environ)
    if env:
        e.update(env)
    try:
        p = subprocess.run(cmd, cwd=wd, capture_output=True, text=True, timeout=timeout, env=e)
    except subprocess.TimeoutExpired:
        raise TLCError('TLC timed out: ' + ' '.join(cmd))
    r.wall = time.time() - t0
    r.log = p.stdout + p.stderr
    m = re.search(r'(\d+) states generated, (\d+) distinct states found', r.log)
    if m:
        r.generated, r.distinct = int(m.group(1)), int(m.group(2))
    m = re.search(r'depth of the complete state graph search is (\d+)', r.log)
    if m:
        r.depth = int(m.group(1))
    m = re.search(r'Invariant (\w+) is violated', r.log) or re.search(r'Action property (\w+) is violated', r.log)
    if m:
        r.violated = m.group(1)
    if simulate:
        simdir = os.path.join(wd, 'sim-' + cfg)
        r.simfiles = sorted(os.path.join(simdir, f) for f in os.listdir(simdir))
        m = re.search(r'The number of states generated: (\d+)', r.log)
        if m:
            r.generated = int(m.group(1))
            r.distinct = r.generated
    bad = ('Error:' in r.log) and not r.violated
    if (bad or (r.violated and not expect_violation) or (not simulate and 'Model checking completed' not in r.log and not r.violated)):
        i = r.log.find('Error:')
        first = r.log[max(0, i - 300):i + 1500] if i >= 0 else ''
        raise TLCError('TLC failed on %s/%s:\n%s\n[...]\n%s' % (module, cfg, first, r.log[-1500:]))
    return r


def cleanup(wd):
    shutil.rmtree(wd, ignore_errors=True)
