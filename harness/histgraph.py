"""The labelled state graph of the Solve model (TLC -dump dot,actionlabels) as a graph of API-level
histories: edits and reads are single edges between idle states; a solve is the path
SolveBegin .. Return collapsed into one macro edge."""
import collections, re
from . import tlaparse

NODE = re.compile(r'^(-?\d+) \[label="(.*)"(,style = filled)?\];?$')
EDGE = re.compile(r'^(-?\d+) -> (-?\d+) \[label="(.*?)",color=')


def unq(s):
    return s.replace('\\n', '\n').replace('\\"', '"').replace('\\\\', '\\')


class Graph:
    def __init__(self, path):
        self.pc = {}
        self.filled = {}
        self.adj = collections.defaultdict(list)
        self.init = None
        self.nedges = 0
        for line in open(path):
            m = EDGE.match(line)
            if m:
                self.adj[m.group(1)].append((m.group(2), unq(m.group(3))))
                self.nedges += 1
                continue
            m = NODE.match(line.rstrip('\n'))
            if m:
                lab = m.group(2)
                pcm = re.search(r'pc = \\"(\w+)\\"', lab)
                self.pc[m.group(1)] = pcm.group(1)
                self.filled[m.group(1)] = sum(1 for c in ('cVars', 'cSolver', 'cLP', 'cLin') if ('%s = [none' % c) not in lab)
                if m.group(3):
                    self.init = m.group(1)
        self.macro = collections.defaultdict(list)   # idle -> [(idle, op)]
        for u in self.pc:
            if self.pc[u] != 'idle':
                continue
            for v, lab in self.adj[u]:
                if lab.startswith('SolveBegin'):
                    w = v
                    steps = 0
                    while self.pc[w] != 'idle':
                        nxt = self.adj[w]
                        if len(nxt) != 1:
                            raise ValueError('solve path branches at %s: %s' % (w, [l for _, l in nxt]))
                        w = nxt[0][0]
                        steps += 1
                    self.macro[u].append((w, parse_op(lab)))
                elif self.pc[v] == 'idle':
                    self.macro[u].append((v, parse_op(lab)))
        self.path = {self.init: []}
        dq = collections.deque([self.init])
        while dq:
            u = dq.popleft()
            for v, op in self.macro[u]:
                if v not in self.path:
                    self.path[v] = self.path[u] + [op]
                    dq.append(v)

    def triples(self):
        """(history to a cache-filled idle state, edit, observation) - the invalidation matrix."""
        for u in self.path:
            if not self.filled[u]:
                continue
            for v, e in self.macro[u]:
                if e['op'] in ('Solve', 'ReadVars'):
                    continue
                for w, o in self.macro[v]:
                    if o['op'] in ('Solve', 'ReadVars'):
                        yield self.path[u] + [e, o]


def stratum(h):
    """(last cache-filling operation before the edit, edit, observation) of an invalidation triple."""
    fills = [op_str(o) for o in h[:-2] if o['op'] in ('Solve', 'ReadVars')]
    return (fills[-1] if fills else '-', op_str(h[-2]), op_str(h[-1]))


def stratified(hists, k, rng, key=stratum, extra=0.4):
    """One seeded-random history of every stratum (so the dimensions the key leaves out - which objective,
    which constraints are present - vary across strata), then a seeded random fill: up to k histories, and at
    least `extra` x the number of strata on top."""
    groups = {}
    for h in hists:
        groups.setdefault(key(h), []).append(h)
    out = [rng.choice(groups[s]) for s in sorted(groups)]
    chosen = set(map(id, out))
    rest = [h for h in hists if id(h) not in chosen]
    n = max(k - len(out), int(extra * len(groups)))
    if rest and n > 0:
        out += rng.sample(rest, min(n, len(rest)))
    return out, len(groups)


def replacement_histories(hists):
    """The systematic objective-replacement matrix contained in the graph: minimize(o1) [; subject_to(con11)] ; solve(m) ;
    minimize(o2) ; solve(m) for every ordered pair of objective records, every method, with and without the constraint."""
    out = []
    for h in hists:
        if len(h) not in (4, 5) or h[-1]['op'] != 'Solve' or h[-2]['op'] != 'SetObjective' or h[0]['op'] != 'SetObjective':
            continue
        fill = h[-3]
        if fill['op'] != 'Solve' or fill['m'] != h[-1]['m'] or fill['strict'] or h[-1]['strict'] or fill.get('opts') or h[-1].get('opts'):
            continue
        if h[0]['sense'] != 'minimize' or h[-2]['sense'] != 'minimize' or h[0]['obj']['id'] == h[-2]['obj']['id']:
            continue
        if len(h) == 5 and not (h[1]['op'] == 'SubjectTo' and [c['id'] for c in h[1]['cons']] == [11]):
            continue
        out.append(h)
    return out


def parse_op(lab):
    name = lab.split('(')[0]
    args = tlaparse.parse_value('<<' + lab[len(name) + 1:-1] + '>>') if '(' in lab else []
    if name == 'SolveBegin':
        return {'op': 'Solve', 'm': args[0], 'strict': args[1]}
    if name == 'SolveBeginOpts':
        o = {'op': 'Solve', 'm': args[0], 'strict': args[1]}
        if args[2] != {'useHess': True, 'x0': False, 'tol': False, 'maxiter': False}:
            o['opts'] = args[2]
        return o
    if name == 'SetObjective':
        return {'op': 'SetObjective', 'obj': args[0], 'sense': args[1]}
    if name == 'SubjectTo':
        return {'op': 'SubjectTo', 'cons': args[0]}
    if name in ('SubjectTo1', 'SubjectTo2'):
        return {'op': 'SubjectTo', 'cons': list(args)}
    if name not in ('SetBound', 'SetParam', 'ReadVars'):
        raise ValueError('unlabelled edge between idle states: %r (every API-level action of Solve.tla must be a named action)' % lab)
    return {'op': name}


def op_str(o):
    if o['op'] == 'Solve':
        extra = ''.join(',%s=%s' % (k, v) for k, v in sorted(o.get('opts', {}).items()))
        return 'solve(%s%s%s)' % (o['m'], ',strict' if o['strict'] else '', extra)
    if o['op'] == 'SetObjective':
        return '%s(obj%d)' % (o['sense'], o['obj']['id'])
    if o['op'] == 'SubjectTo':
        return 'subject_to(%s)' % ','.join('con%d' % c['id'] for c in o['cons'])
    return o['op']
