"""Replay of spec-enumerated API programs (ApiGen states) into real optyx.

One state = one program.  The newest call is judged against the spec's prediction:
raised-or-not, kind, element names, values at rational points; then a property-specific observer
looks at the resulting object.  A program whose earlier call already diverged is not re-reported
(first-divergence attribution): in BFS dumps every prefix is a state of its own.
"""
import itertools, json, math
from fractions import Fraction as Fr
import numpy as np
from . import apiexec, interp
from .common import pviolation, bump, pkey
from .interp import name_of, Irregular

VEC_KINDS = ('V', 'E', 'MVP', 'EP', 'EU')
UNSUPPORTED = '~unsupported combination fails late'   # not a violation; blocks descendants


def kind_sig(o):
    k = o['kind']
    if k == 'V':
        return 'V%d' % len(o['names'])
    if k in ('E', 'MVP', 'EP', 'EU'):
        return '%s%d' % (k, len(o['dens']))
    if k == 'M':
        return 'M%dx%d%s' % (len(o['names']), len(o['names'][0]), 's' if o.get('sym') else '')
    if k == 'ME':
        return 'ME%dx%d' % (len(o['dens']), len(o['dens'][0]))
    return k


def kind_only(o):
    return o['kind']


def names_of(o):
    if o['kind'] == 'V':
        return [tuple(n) for n in o['names']]
    if o['kind'] in ('EP', 'EU', 'MVP'):
        return [tuple(n) for n in o['names']]
    if o['kind'] == 'M':
        return [tuple(n) for r in o['names'] for n in r]
    return None


def relation(a, b):
    na, nb = names_of(a), names_of(b)
    if na is None or nb is None:
        return ''
    if na == nb:
        return '{same elements}'
    if set(na) & set(nb):
        return '{overlapping elements}'
    return ''


def site(call, heap):
    """Call-site signature: call name, operator, operand kinds (without sizes), literal kind and the
    salient relation between the operands."""
    c = call['c']
    a = heap[call['a'] - 1] if call['a'] else None
    b = heap[call['b'] - 1] if call['b'] else None
    parts = []
    if call['op']:
        parts.append(call['op'])
    if a is not None:
        parts.append(kind_only(a))
    if b is not None:
        parts.append(kind_only(b))
    l = call['lit']
    if l['lk'] not in ('none', 'bounds'):
        parts.append(l['lk'] + ('' if not l['sh'] else '%dd' % len(l['sh'])))
    rel = relation(a, b) if (a is not None and b is not None) else ''
    if c in ('Dot', 'Sum', 'Norm', 'LinComb') and call['k']:
        parts.append('alt')
    return '%s(%s)%s' % (c, ';'.join(parts), rel)


def make_points(all_names, rng, n_extra=2):
    """Rational sample points over all declared names: one in (0,1), one > 1, mixed signs, plus seeded extras."""
    names = sorted(name_of(n) for n in all_names)
    pools = [
        [Fr(1, 4), Fr(1, 2), Fr(3, 4), Fr(1, 3), Fr(2, 3), Fr(1, 5), Fr(2, 5), Fr(3, 5), Fr(4, 5), Fr(1, 6), Fr(5, 6), Fr(3, 8)],
        [Fr(3, 2), Fr(2), Fr(5, 2), Fr(3), Fr(5, 4), Fr(7, 4), Fr(9, 4), Fr(4), Fr(7, 2), Fr(5, 3), Fr(7, 3), Fr(11, 4)],
        [Fr(-3, 2), Fr(2), Fr(-1, 2), Fr(3), Fr(-2), Fr(1, 2), Fr(-3), Fr(5, 2), Fr(-5, 4), Fr(7, 4), Fr(-1, 4), Fr(3, 4)],
    ]
    pts = []
    for pool in pools:
        pts.append({nm: pool[i % len(pool)] for i, nm in enumerate(names)})
    pts.append({nm: Fr(0) for nm in names})                                   # the origin
    pts.append({nm: (Fr(0) if i % 2 else Fr(-3, 2)) for i, nm in enumerate(names)})  # zeros mixed with regular coordinates
    for k in range(n_extra):
        pool = pools[k % 3][:]
        rng.shuffle(pool)
        pts.append({nm: pool[i % len(pool)] for i, nm in enumerate(names)})
    return pts


class VecElemSetter:
    """Parameter-like handle of element k of a VectorParameter: set() goes through VectorParameter.set with the whole array
    (every other element unchanged) on even calls and through the element's own Parameter.set on odd calls."""

    def __init__(self, vp, k):
        self.vp, self.k, self.n = vp, k, 0

    def set(self, value):
        self.n += 1
        if self.n % 2:
            vals = [float(np.asarray(p.value)) for p in self.vp]
            vals[self.k] = value
            self.vp.set(vals)
        else:
            self.vp[self.k].set(value)


class PointBuffer:
    """One numpy array per compiled callable, overwritten in place for every further point - the way iterative
    callers (SciPy's SLSQP, a hand-written descent loop `x -= step * g(x)`) hand points to a callable."""

    def __init__(self):
        self.buf = None

    def at(self, values):
        if self.buf is None or len(self.buf) != len(values):
            self.buf = np.array(values, dtype=float)
        else:
            self.buf[:] = values
        return self.buf


def fvals(pt):
    return {k: float(v) for k, v in pt.items()}


def oracle(t, pt, pars, deriv=False):
    """-> (float value, tol) or raises Irregular."""
    exact = None
    if interp.is_rational_fragment(t):
        try:
            exact = interp.eval_exact(t, pt, pars)
        except TypeError:
            exact = None          # fractional power: not rational after all
    if exact is not None and interp.has_tiny(t):
        exact = None              # tolerance must come from the running error bound
    if exact is not None:
        v = exact
        try:
            fv = float(v)
        except OverflowError:
            raise Irregular('magnitude')
        if abs(fv) > 1e6:
            raise Irregular('magnitude')
        # intermediate magnitudes: use mp path only for the tolerance when cheap; exact value is the truth
        try:
            _, tol = interp.evaluate(t, pt, pars, deriv=deriv)
        except Irregular:
            raise
        return fv, tol
    return interp.evaluate(t, pt, pars, deriv=deriv)


def tofloat(x):
    a = np.asarray(x)
    if a.shape == ():
        return float(a)
    if a.size == 1:
        return float(a.reshape(()))
    raise ValueError('not a scalar: shape %s' % (a.shape,))


class Ctx:
    def __init__(self, base_calls, base_heap, all_names, rng, observer=None, judge_generic=True, mode='bfs'):
        self.base_calls = base_calls
        self.base_heap = base_heap
        self.all_names = all_names
        self.points = make_points(all_names, rng)
        self.rng = rng
        self.observer = observer
        self.judge_generic = judge_generic
        self.mode = mode
        self.looser = 0.0
        self.report_kinds = None      # None: report generic Api divergences for every kind (C11); else only these kinds
        self.pars = {99: Fr(1, 10 ** 12)}      # Api.TinyAtom: the scale of "tiny" literals
        self.parvec = {}          # pid -> (position of the VectorParameter in the base heap, element index, size)
        for n, c in enumerate(base_calls):
            if c['c'] == 'MkPar':
                self.pars[c['i']] = apiexec.q(c['lit']['qs'][0])
            if c['c'] == 'MkVPar':
                qs = c['lit']['qs']
                for k in range(c['j']):
                    self.pars[c['i'] + k] = apiexec.q(qs[k] if len(qs) == c['j'] and c['lit']['sh'] else qs[0])
                    self.parvec[c['i'] + k] = (n + 1, k, c['j'])


def build_base(ctx):
    apiexec.reset_shared()
    objs = {}
    for i, c in enumerate(ctx.base_calls):
        objs[i + 1] = apiexec.execute(c, objs)
    return objs


def judge_values(got, pred, ctx, part):
    """Generic conformance of one object: names and values. Returns an observable string if wrong, else None."""
    k = pred['kind']
    if k == 'V':
        want = [name_of(n) for n in pred['names']]
        try:
            have = [v.name for v in got]
        except Exception as e:
            return None if pred.get('may') else 'result unusable: %s' % type(e).__name__
        if have != want:
            return 'element names %s, expected %s' % (have, want)
        if len(got) != len(want):
            return 'len'
        return None
    if k == 'M':
        want = [[name_of(n) for n in r] for r in pred['names']]
        try:
            have = [[got[i, j].name for j in range(got.cols)] for i in range(got.rows)]
        except Exception as e:
            return None if pred.get('may') else 'result unusable: %s' % type(e).__name__
        if have != want or tuple(got.shape) != (len(want), len(want[0])):
            return 'element names %s, expected %s' % (have, want)
        return None
    if k == 'S':
        dens = [pred['den']]
    elif k in ('E', 'MVP', 'EP', 'EU'):
        dens = pred['dens']
    elif k == 'ME':
        dens = [t for r in pred['dens'] for t in r]
    else:
        return None
    nreg = 0
    for pt in ctx.points:
        try:
            want = [oracle(t, pt, ctx.pars) for t in dens]
        except Irregular:
            bump(part, 'points_skipped_irregular')
            continue
        nreg += 1
        vals = fvals(pt)
        try:
            if k == 'S':
                have = [tofloat(got.evaluate(vals))]
            elif k == 'ME':
                arr = np.asarray(got.evaluate(vals), dtype=float)
                if arr.shape != (len(pred['dens']), len(pred['dens'][0])):
                    return 'evaluate: shape %s' % (arr.shape,)
                have = [float(z) for z in arr.reshape(-1)]
            else:
                arr = got.evaluate(vals)
                have = [tofloat(z) for z in arr]
        except Exception as e:
            if pred.get('may'):
                bump(part, 'mayraise_raised_on_evaluate')
                return UNSUPPORTED
            return 'evaluate raises %s' % type(e).__name__
        part['evaluations'] += 1
        if len(have) != len(want):
            return 'evaluate: %d elements, expected %d' % (len(have), len(want))
        for h, (w, tol) in zip(have, want):
            if not interp.close(h, w, max(tol, ctx.looser * (1 + abs(w)))):
                part['detail'] = 'got %r, expected %r at %s' % (h, w, {a: str(b) for a, b in pt.items()})
                return 'evaluate: wrong value'
    if nreg == 0:
        bump(part, 'cases_without_regular_point')
    return None


def judge_state(st, ctx, part):
    calls = st['calls']
    if not calls:
        return
    heap = ctx.base_heap + st['heap']
    nb = len(ctx.base_calls)
    objs = build_base(ctx)
    last = len(calls) - 1
    # float32 literals make NumPy compute in single precision: compare those programs at 1e-6
    ctx.looser = 1e-6 if any(c['lit']['lk'] == 'npf32' for c in calls) else 0.0
    for i, call in enumerate(calls):
        h = nb + i + 1
        pred = heap[h - 1]
        try:
            got = apiexec.execute(call, objs)
            raised = None
        except Exception as e:
            got = None
            raised = type(e).__name__
        if i < last:
            # earlier calls were judged in their own state; here we only need them to have produced an object
            if raised or pred['kind'] == 'X':
                bump(part, 'inherited_divergence')
                return
            if pred.get('may') and apiexec.kind_of(got) != pred['kind']:
                bump(part, 'built_on_unsupported_combination')
                return
            objs[h] = got
            continue
        sg = site(call, heap)
        prog = apiexec.program_str(ctx.base_calls, calls)
        part['traces_validated_against_impl'] += 1
        ident = None
        if pred['kind'] == 'X':
            if not raised:
                if pred.get('why') == 'must':
                    ident = 'accepted although operands are incompatible'
                else:
                    bump(part, 'type_misuse_accepted', sg)
            else:
                bump(part, 'raises_as_specified')
        elif raised:
            if pred.get('may'):
                bump(part, 'mayraise_raised', sg)
            else:
                ident = 'raises %s' % raised
        else:
            k = apiexec.kind_of(got)
            want_k = pred['kind']
            if k != want_k and not (pred.get('may')):
                # kind differences are reported only when the public behaviour differs; keep as note
                bump(part, 'kind_differs', '%s: spec %s code %s' % (sg, want_k, k))
            if ctx.judge_generic:
                ident = judge_values(got, pred, ctx, part)
            if ident is None and got is not None and ctx.observer is not None and not (pred.get('may') and apiexec.kind_of(got) != pred['kind']):
                from . import apirun
                ctx.varmap = apirun.varmap(objs)
                ctx.parobjs = {c['i']: objs[n + 1] for n, c in enumerate(ctx.base_calls) if c['c'] == 'MkPar'}
                for pid, (h, k, size) in ctx.parvec.items():
                    ctx.parobjs[pid] = VecElemSetter(objs[h], k)
                part['_own'] = pkey(calls, len(calls))
                part['_prefixes'] = [pkey(calls, n) for n in range(1, len(calls))]
                ctx.cur_objs = objs
                ctx.cur_calls = calls
                ctx.cur_heap = heap
                ctx.cur_preds = st.get('pred')
                ctx.nb = nb
                ctx.observer(got, pred, st['pred'][-1], call, sg, prog, ctx, part)
                part.pop('_own', None)
                part.pop('_prefixes', None)
        if ident == UNSUPPORTED:
            ident_out = None
        elif ident and ctx.report_kinds is not None and pred['kind'] not in ctx.report_kinds:
            bump(part, 'api_divergences_left_to_C11')
            ident_out = None
        else:
            ident_out = ident
        if ident:
            pviolation(part, sg, ident_out, {'program': prog, 'spec_prediction': summarize(pred), 'detail': part.pop('detail', None)},
                       own=pkey(calls, len(calls)), prefixes=[pkey(calls, n) for n in range(1, len(calls))])
        if len(part['samples']) < 2 and i >= 1:
            part['samples'].append({'program': prog, 'spec': summarize(pred)})
        part['nontrivial'].add(prog)


def summarize(pred):
    k = pred['kind']
    if k == 'S':
        return {'kind': 'S', 'den': interp.term_str(pred['den'])}
    if k in ('E', 'MVP', 'EP', 'EU'):
        return {'kind': k, 'dens': [interp.term_str(t) for t in pred['dens']]}
    if k == 'V':
        return {'kind': 'V', 'names': [name_of(n) for n in pred['names']]}
    if k == 'X':
        return {'kind': 'raises', 'why': pred['why']}
    if k == 'C':
        return {'kind': 'C', 'den': interp.term_str(pred['den']), 'sense': pred['sense']}
    if k == 'CL':
        return {'kind': 'CL', 'cons': ['%s %s 0' % (interp.term_str(c['den']), c['sense']) for c in pred['cons']]}
    if k == 'PR':
        return {'kind': 'PR', 'sense': pred['sense'], 'objective': interp.term_str(pred['obj']),
                'constraints': ['%s %s 0' % (interp.term_str(c['den']), c['sense']) for c in pred['cons']]}
    return {'kind': k}
