"""./check selftest - checking the checker.

1. spec mutants: flipping an intended-behaviour constant (or a rule) of the specification must make TLC
   report the corresponding invariant - the invariants are not vacuous;
2. trace corruption: flipping one recorded field / dropping one event of a valid recorded trace must
   make TraceSolve.tla reject it - the binding is real;
3. code mutants: realistic changes that keep the repository's tests green (design/mutants.md), applied
   to a scratch copy outside /repo and /verif, must be reported by the named property's check.
"""
import copy, json, os, re, shutil, subprocess, sys, tempfile, time
from . import tlc, common, tracecheck

ROOT = common.ROOT


def spec_mutants():
    out = []
    wd = tlc.workdir()
    try:
        for const, inv in (('EditInvalidates', 'C13_CachesCoherent'), ('BoundsLive', 'C13_CachesCoherent'), ('ParamsLive', 'C12_NoFrozenParam'),
                           ('GateBeforeSolver', 'C18_NoSilentRelax'), ('RestoreInFinally', 'C20_GlobalsRestored'),
                           ('FeasCheckAlways', 'C06_OptimalFeasible'), ('FaultKeepsCaches', 'C20_FaultKeepsCaches')):
            r = tlc.run('MC_Solve', wd=wd, overrides={const: 'FALSE'}, expect_violation=True, timeout=600)
            out.append(('Solve.%s=FALSE' % const, inv, r.violated))
        r = tlc.run('GlobalCaches', wd=wd, overrides={'ParamBypass': 'FALSE'}, expect_violation=True)
        out.append(('GlobalCaches.ParamBypass=FALSE', 'C14_NoCrossTalk', r.violated))
        r = tlc.run('GlobalCaches', cfg='GlobalCachesLife', wd=wd, overrides={'DegreePins': 'FALSE'}, expect_violation=True)
        out.append(('GlobalCaches.DegreePins=FALSE', 'C14_DegreeOwn', r.violated))
        r = tlc.run('GlobalCaches', cfg='GlobalCachesBuf', wd=wd, overrides={'MemoChecksContent': 'FALSE'}, expect_violation=True)
        out.append(('GlobalCaches.MemoChecksContent=FALSE', 'C14_BufferCurrent', r.violated))
        r = tlc.run('RecLimit', wd=wd, overrides={'SavedPerEntry': 'FALSE'}, expect_violation=True)
        out.append(('RecLimit.SavedPerEntry=FALSE', 'C20_LimitRestored', r.violated))
        # rule-level mutants of the derivative table / simplifier (edited copy of the module)
        src = open(os.path.join(wd, 'Diff.tla')).read()
        for name, old, new, inv in (
                ('Diff product rule', 'Add(Mul(t.l, D(t.r, v)), Mul(t.r, D(t.l, v)))', 'Sub(Mul(t.l, D(t.r, v)), Mul(t.r, D(t.l, v)))', 'DerivExact'),
                ('Simp 0**n without side condition', 'IsC(t.l, 0) /\\ IsConst(t.r) /\\ RLess(RZero, t.r.q) THEN C0', 'IsC(t.l, 0) THEN C0', 'SimpSound')):
            assert old in src, name
            open(os.path.join(wd, 'Diff.tla'), 'w').write(src.replace(old, new))
            try:
                r = tlc.run('MC_Diff', wd=wd, expect_violation=True)
                out.append((name, inv, r.violated))
            finally:
                open(os.path.join(wd, 'Diff.tla'), 'w').write(src)
    finally:
        tlc.cleanup(wd)
    return out


def valid_batch():
    """A few real recorded executions (clean solve, retry, integrality warning, strict raise, fault)."""
    import warnings
    import optyx
    from . import recorder, scenario, concrete
    import scipy.optimize
    import optyx.solvers.scipy_solver as ss
    real_min, real_lp = ss.minimize, scipy.optimize.linprog
    rec = recorder.Recorder()
    rec.install()
    try:
        with warnings.catch_warnings():
            warnings.simplefilter('ignore')
            w = concrete.World('scalar')
            p = optyx.Problem().minimize(w.objs[3]).subject_to(w.cons[11])
            p.solve()
            w.set_bound()
            p.solve(method='trust-constr')
            q = optyx.Problem().maximize(w.objs[2])
            q.solve()
            r = optyx.Problem().minimize(w.objs[5])
            r.solve()
            try:
                r.solve(strict=True)
            except Exception:
                pass
        ok = [{'e': 'begin', 'm': 'SLSQP', 'strict': False},
              {'e': 'ret', 'r': {'success': True, 'msg': 'ok', 'x': 'viol_con', 'lp': 9}},
              {'e': 'ret', 'r': {'success': True, 'msg': 'ok', 'x': 'feas', 'lp': 9}}]
        scenario.run_schedule(rec, real_min, real_lp, 'scalar', 3, [11], ok)
        flt = [{'e': 'begin', 'm': 'trust-constr', 'strict': False}, {'e': 'raise', 'exc': 'ValueError'}]
        scenario.run_schedule(rec, real_min, real_lp, 'scalar', 3, [11], flt, site='jac@1')
    finally:
        rec.uninstall()
    return rec.batch()


def trace_corruptions():
    batch = valid_batch()
    rej = tracecheck.validate(batch)
    out = [('uncorrupted traces accepted (%d traces, %d events)' % (len(batch), sum(map(len, batch))), 'accept', 'accept' if not rej else 'rejected %s' % rej[:2])]

    def variants():
        for ti, tr in enumerate(batch):
            for ei, ev in enumerate(tr):
                if ev['ev'] == 'Return':
                    yield 'status flipped', ti, ei, dict(ev, status='failed' if ev['status'] == 'optimal' else 'optimal')
                    yield 'hook_restored=false', ti, ei, dict(ev, hook_restored=False)
                    yield 'objOK=false', ti, ei, dict(ev, objOK=False)
                if ev['ev'] == 'SolverExit':
                    yield 'solver-exit event dropped (hook removed)', ti, ei, None
                if ev['ev'] == 'SolveCall':
                    yield 'solve-call event dropped (hook removed)', ti, ei, None
                if ev['ev'] == 'SolverExit' and ev['raised'] == '' and ev['x'] == 'feas' and ev['success']:
                    yield 'returned point made infeasible', ti, ei, dict(ev, x='viol_con')
                if ev['ev'] == 'SolverEnter':
                    yield 'stale bounds handed over', ti, ei, dict(ev, bounds_current=False)
                    yield 'method changed', ti, ei, dict(ev, method='COBYLA')
                if ev['ev'] == 'Warn':
                    yield 'warning dropped', ti, ei, None
                    yield 'warning names wrong', ti, ei, dict(ev, namesOK=False)
    seen = set()
    for name, ti, ei, new in variants():
        if name in seen:
            continue
        seen.add(name)
        tr = copy.deepcopy(batch[ti])
        if new is None:
            del tr[ei]
        else:
            tr[ei] = new
        rej = tracecheck.validate([tr])
        out.append(('trace corruption: ' + name, 'rejected', 'rejected' if rej else 'ACCEPTED'))
    return out


def load_mutants():
    txt = open(os.path.join(ROOT, 'design', 'mutants.md')).read()
    out = []
    for m in re.finditer(r'^## (\w+) — ([\w/]+) — `([^`]+)`\n\n```python\n# old\n(.*?)\n# new\n(.*?)\n```', txt, flags=re.S | re.M):
        out.append({'id': m.group(1), 'props': m.group(2).split('/'), 'file': m.group(3), 'old': m.group(4), 'new': m.group(5)})
    return out


def run_check_on(src_dir, prop, timeout=1500):
    out_dir = tempfile.mkdtemp(prefix='optyxverif-out-')
    try:
        p = subprocess.run([sys.executable, os.path.join(ROOT, 'check'), prop, '--tier', 'quick', '--repo', src_dir],
                           capture_output=True, text=True, timeout=timeout, env=dict(os.environ, VERIF_OUT=out_dir), cwd=ROOT)
        first = next((l for l in p.stdout.splitlines() if 'identity:' in l), '')
        return p.returncode, first.strip()
    finally:
        shutil.rmtree(out_dir, ignore_errors=True)


def code_mutants(repo, which=None):
    out = []
    for mu in load_mutants():
        if which and mu['id'] not in which:
            continue
        if mu['id'] == 'n21':
            continue      # equivalent mutant (negative control), see design/mutants.md
        scratch = tempfile.mkdtemp(prefix='optyxverif-mut-')
        try:
            shutil.copytree(os.path.join(repo, 'src'), os.path.join(scratch, 'src'))
            path = os.path.join(scratch, 'src', 'optyx', mu['file'])
            s = open(path).read()
            if mu['old'] not in s:
                out.append(('code mutant %s (%s)' % (mu['id'], mu['file']), 'n/a', 'hunk no longer applies to the current tree'))
                continue
            open(path, 'w').write(s.replace(mu['old'], mu['new'], 1))
            caught = None
            for prop in mu['props']:
                rc, first = run_check_on(scratch, prop)
                if rc == 1:
                    caught = '%s: %s' % (prop, first[:140])
                    break
                if rc == 2:
                    caught = None
            out.append(('code mutant %s -> %s' % (mu['id'], '/'.join(mu['props'])), 'caught', caught or 'MISSED'))
        finally:
            shutil.rmtree(scratch, ignore_errors=True)
    return out


def main(a):
    t0 = time.time()
    rows = []
    rows += spec_mutants()
    rows += trace_corruptions()
    quick_set = {'m09', 'n03', 'm12', 'm03', 'n05'}
    rows += code_mutants(a.repo, None if a.tier == 'thorough' else quick_set)
    bad = 0
    for name, want, got in rows:
        ok = (got is not None and got != 'MISSED' and got != 'ACCEPTED' and (want in ('caught', 'rejected', 'accept', 'n/a') or got == want))
        if want == 'accept':
            ok = got == 'accept'
        if want not in ('caught', 'rejected', 'accept', 'n/a'):
            ok = got == want
        bad += 0 if ok else 1
        print('%s  %-62s expected %-22s got %s' % ('ok  ' if ok else 'FAIL', name[:62], want, got))
    print('selftest: %d rows, %d failures, %.0f s' % (len(rows), bad, time.time() - t0))
    json.dump({'rows': rows, 'failures': bad, 'wall_s': time.time() - t0}, open(os.path.join(common.OUT_ROOT, 'evidence', 'selftest.json'), 'w'), indent=1)
    return 1 if bad else 0
