"""Replaying complete solve behaviours of MC_Sched (route x method x strict x outcomes x faults) into
the real solve() through a stubbed / fault-injecting solver seam, under the recorder."""
import sys, warnings
import numpy as np
from scipy.optimize import OptimizeResult
from . import concrete

MSG = {'ok': 'Optimization terminated successfully', 'maxiter': 'Maximum number of iterations has been exceeded.',
       'infeasible': 'Inequality constraints incompatible - problem infeasible',
       'pdd': 'Positive directional derivative for linesearch', 'other': 'More equality constraints than independent variables'}
EXC = {'ValueError': ValueError, 'FloatingPointError': FloatingPointError, 'MemoryError': MemoryError,
       'KeyboardInterrupt': KeyboardInterrupt}
POINT = {'feas': (3.0, 1.0, 1.0), 'viol_con': (0.2, 0.3, 1.0), 'viol_bnd': (12.0, 1.0, 1.0)}
SITES = ('entry', 'fun@1', 'fun@3', 'jac@1', 'hess@1', 'cfun@1', 'cjac@1')


class Unexpected(Exception):
    pass


def build(kind, objid, cons_ids, sense='minimize'):
    import optyx
    w = concrete.World(kind)
    p = optyx.Problem()
    (p.minimize if sense == 'minimize' else p.maximize)(w.objs[objid])
    for c in cons_ids:
        p.subject_to(w.cons[c])
    return w, p


def point_for(prob, xclass):
    base = POINT[xclass]
    val = {'x': base[0], 'y': base[1], 'v[0]': base[0], 'v[1]': base[1], 'z': base[2]}
    return np.array([val[v.name] for v in (prob._variables or [])], dtype=float)


class Faulty:
    """Wraps the callables handed to scipy and raises at the k-th call of one of them."""

    def __init__(self, site, exc):
        self.kind, _, k = site.partition('@')
        self.k = int(k or 1)
        self.exc = exc
        self.n = 0
        self.fired = False

    def wrap(self, kind, f):
        if f is None or kind != self.kind:
            return f

        def g(*a, **kw):
            self.n += 1
            if self.n == self.k and not self.fired:
                self.fired = True
                raise self.exc('injected at %s call %d' % (kind, self.k))
            return f(*a, **kw)
        return g


def run_schedule(rec, real_min, real_lp, kind, objid, cons_ids, sched, site='entry', sense='minimize'):
    """Execute solve(m, strict) with the environment's choices taken from `sched`.
    -> dict(outcome=('solution', status) | ('raised', exc), notes=[...], after=None | difference string)"""
    w, prob = build(kind, objid, cons_ids, sense)
    begin = sched[0]
    script = list(sched[1:])
    notes = []
    fired = {'any': False}

    def next_event():
        if not script:
            raise Unexpected('solver entered although the behaviour has no further solver step')
        return script.pop(0)

    def smin(fun, x0, **kw):
        ev = next_event()
        if ev['e'] == 'raise':
            exc = EXC[ev['exc']]
            if site == 'entry':
                fired['any'] = True
                raise exc('injected at solver entry')
            f = Faulty(site, exc)
            kw2 = dict(kw)
            kw2['jac'] = f.wrap('jac', kw.get('jac'))
            kw2['hess'] = f.wrap('hess', kw.get('hess'))
            cons = []
            for c in (kw.get('constraints') or ()):
                c = dict(c)
                c['fun'] = f.wrap('cfun', c['fun'])
                c['jac'] = f.wrap('cjac', c.get('jac'))
                cons.append(c)
            kw2['constraints'] = cons
            try:
                r = real_min(f.wrap('fun', fun), x0, **kw2)
            finally:
                fired['any'] = fired['any'] or f.fired
            if not f.fired:
                notes.append('fault site %s not reached' % site)
            return r
        r = ev['r']
        x = point_for(prob, r['x'])
        return OptimizeResult(x=x, success=r['success'], message=MSG[r['msg']], fun=float(fun(x)), nit=1, status=0 if r['success'] else 9)

    def slp(c, **kw):
        ev = next_event()
        if ev['e'] == 'raise':
            fired['any'] = True
            raise EXC[ev['exc']]('injected at solver entry')
        r = ev['r']
        x = point_for(prob, r['x'])
        msg = {0: 'Optimization terminated successfully.', 1: 'Iteration limit reached.', 2: 'The problem is infeasible.',
               3: 'The problem is unbounded.', 4: 'Numerical difficulties encountered.'}[r['lp']]
        return OptimizeResult(x=x if r['lp'] in (0, 1) else None, success=r['success'], status=r['lp'], message=msg,
                              fun=float(np.dot(c, x)) if r['lp'] in (0, 1) else None, nit=1)

    rec.inner_minimize, rec.inner_linprog = smin, slp
    hook0 = warnings.showwarning
    rl0 = sys.getrecursionlimit()
    try:
        with warnings.catch_warnings():
            warnings.simplefilter('ignore')
            try:
                s = prob.solve(method=begin['m'], strict=begin['strict'])
                outcome = ('solution', s.status.value)
            except Unexpected as e:
                outcome = ('unexpected', str(e))
            except BaseException as e:
                outcome = ('raised', type(e).__name__)
    finally:
        rec.inner_minimize, rec.inner_linprog = None, None
    if script and outcome[0] != 'unexpected':
        notes.append('%d solver step(s) of the behaviour not taken' % len(script))
    res = {'outcome': outcome, 'notes': notes, 'after': None, 'fired': fired['any'],
           'hook_ok': warnings.showwarning is hook0, 'reclimit_ok': sys.getrecursionlimit() == rl0}
    if fired['any']:
        # C20: the next solve of the same problem equals the baseline (a fresh problem), real solver
        with warnings.catch_warnings():
            warnings.simplefilter('ignore')
            m2 = begin['m']
            a = concrete.outcome(lambda: prob.solve(method=m2))
            import optyx
            f = optyx.Problem()
            (f.minimize if sense == 'minimize' else f.maximize)(w.objs[objid])
            for c in cons_ids:
                f.subject_to(w.cons[c])
            b = concrete.outcome(lambda: f.solve(method=m2))
        res['after'] = concrete.compare(a, b)
    return res
