"""Shared machinery: locating the tree under test, evidence files, violations and known findings,
parallel replay of TLC dumps."""
import hashlib, json, multiprocessing as mp, os, sys, time, traceback, random

ROOT = os.path.dirname(os.path.dirname(os.path.abspath(__file__)))
sys.path.insert(0, os.path.join(ROOT, '.vendor'))


class MachineryError(Exception):
    pass


# evidence and replay files of runs against a scratch tree (--repo other than /repo) go elsewhere
OUT_ROOT = ROOT


REPO = ['/repo']


def setup_repo(repo):
    """Make `import optyx` resolve to <repo>/src and nothing else."""
    REPO[0] = os.path.abspath(repo)
    src = os.path.join(os.path.abspath(repo), 'src')
    sys.path.insert(0, src)
    import optyx
    if not os.path.abspath(optyx.__file__).startswith(src):
        raise MachineryError('optyx imported from %s, not from %s' % (optyx.__file__, src))
    import warnings
    warnings.simplefilter('ignore')
    import numpy as np
    np.seterr(all='ignore')
    return src


def seed():
    return int(os.environ.get('VERIF_SEED', '0'))


def rng(tag=''):
    return random.Random('%s/%d' % (tag, seed()))


# ------------------------------------------------------------------ known findings
def load_known():
    p = os.path.join(ROOT, 'known_findings.json')
    if not os.path.exists(p):
        return []
    return json.load(open(p))


class Report:
    """Collects what one check run covered and found."""

    def __init__(self, pid, tier):
        self.pid = pid
        self.tier = tier
        self.t0 = time.time()
        self.violations = {}      # identity -> example
        self.counts = {}          # identity -> occurrences
        self.cov = {'evaluations': 0, 'distinct_nontrivial': 0, 'states': 0, 'transitions': 0,
                    'traces_validated_against_impl': 0, 'samples': []}
        self.extra = {}
        self.assumptions = []
        self.nontrivial = set()
        self.instances = []       # (identity, own program key, prefix keys)
        self.examples = {}        # (identity, own key) -> example

    def resolve_instances(self):
        """First-divergence attribution: drop violations of programs one of whose proper prefixes
        is itself a violating program."""
        bad = set(own for _, own, _ in self.instances)
        inherited = 0
        for ident, own, prefixes in sorted(self.instances, key=lambda t: len(t[2])):
            if ident is None:
                continue              # divergence that belongs to another property: only blocks descendants
            if any(p in bad for p in prefixes):
                inherited += 1
                continue
            self.counts[ident] = self.counts.get(ident, 0) + 1
            if ident not in self.violations:
                self.violations[ident] = self.examples.get((ident, own), {'program_key': own})
        if self.instances:
            self.extra['violations_inherited_from_an_earlier_call'] = inherited

    def add_tlc(self, r):
        self.cov['states'] += r.distinct
        self.cov['transitions'] += r.transitions
        self.extra.setdefault('tlc_runs', []).append({'distinct': r.distinct, 'generated': r.generated, 'depth': r.depth, 'wall_s': round(r.wall, 1)})

    def violation(self, site, observable, example):
        ident = '%s | %s' % (site, observable)
        self.counts[ident] = self.counts.get(ident, 0) + 1
        self.violations.setdefault(ident, example)

    def merge(self, part):
        for k, v in part.get('violations', {}).items():
            self.counts[k] = self.counts.get(k, 0) + part['counts'][k]
            self.violations.setdefault(k, v)
        self.instances.extend(part.get('instances', ()))
        for k, v in part.get('examples', {}).items():
            self.examples.setdefault(k, v)
        for k in ('evaluations', 'traces_validated_against_impl'):
            self.cov[k] += part.get(k, 0)
        self.nontrivial.update(part.get('nontrivial', ()))
        for s in part.get('samples', []):
            if len(self.cov['samples']) < 6:
                self.cov['samples'].append(s)
        part.pop('_shapes', None)
        for k, v in part.get('extra', {}).items():
            if isinstance(v, (int, float)):
                self.extra[k] = self.extra.get(k, 0) + v
            elif isinstance(v, dict):
                d = self.extra.setdefault(k, {})
                for kk, vv in v.items():
                    d[kk] = d.get(kk, 0) + vv
            elif isinstance(v, list):
                self.extra.setdefault(k, [])
                for x in v:
                    if x not in self.extra[k] and len(self.extra[k]) < 40:
                        self.extra[k].append(x)

    def finish(self, rule, exhaustive=False, level='model_checking'):
        self.resolve_instances()
        known = [k for k in load_known() if k.get('property') == self.pid and k.get('status') == 'known']
        new = []
        hit = []
        for ident, ex in sorted(self.violations.items()):
            kf = next((k for k in known if k['identity'] == ident), None)
            if kf:
                hit.append((kf, ident))
            else:
                new.append((ident, ex))
        rdir = os.path.join(OUT_ROOT, 'replays', self.pid)
        os.makedirs(rdir, exist_ok=True)
        for f in os.listdir(rdir):
            os.unlink(os.path.join(rdir, f))
        lines = []
        for kf, ident in hit:
            lines.append('KNOWN-FINDING: property=%s %s' % (self.pid, kf['what']))
        for ident, ex in new:
            h = hashlib.sha1(ident.encode()).hexdigest()[:12]
            path = os.path.join(OUT_ROOT, 'replays', self.pid, h + '.json')
            json.dump({'property': self.pid, 'identity': ident, 'occurrences': self.counts[ident], 'example': ex},
                      open(path, 'w'), indent=1, default=str)
            lines.append('VIOLATION property=%s replay=%s' % (self.pid, path))
            lines.append('  identity: %s   (%d occurrences)' % (ident, self.counts[ident]))
            lines.append('  example: %s' % json.dumps(ex, default=str)[:600])
        self.cov['distinct_nontrivial'] = len(self.nontrivial)
        self.cov['rule'] = rule
        self.cov['exhaustive'] = bool(exhaustive)
        self.cov.update(self.extra)
        if not self.cov['samples']:
            self.cov['samples'] = ['(no case executed)']
        ev = {'property_id': self.pid, 'tier': self.tier, 'seed': seed(), 'level': level,
              'coverage': self.cov, 'assumptions': self.assumptions,
              'wall_s': round(time.time() - self.t0, 2), 'violations': len(new),
              'known_findings_hit': [k['id'] for k, _ in hit]}
        os.makedirs(os.path.join(OUT_ROOT, 'evidence'), exist_ok=True)
        json.dump(ev, open(os.path.join(OUT_ROOT, 'evidence', self.pid + '.json'), 'w'), indent=1, default=str)
        for l in lines:
            print(l)
        print('%s %s: states=%d transitions=%d replayed=%d evaluations=%d nontrivial=%d violations=%d known=%d wall=%.1fs' % (
            self.pid, self.tier, self.cov['states'], self.cov['transitions'], self.cov['traces_validated_against_impl'],
            self.cov['evaluations'], self.cov['distinct_nontrivial'], len(new), len(hit), time.time() - self.t0))
        return 1 if new else 0


# ------------------------------------------------------------------ parallel replay of a dump
_JUDGE = None
_CTX = None


def _worker(args):
    path, start, end = args
    from . import tlaparse
    part = {'violations': {}, 'counts': {}, 'evaluations': 0, 'traces_validated_against_impl': 0,
            'nontrivial': set(), 'samples': [], 'extra': {}}
    try:
        for txt in tlaparse.iter_states(path, start, end):
            st = tlaparse.parse_state(txt)
            _JUDGE(st, _CTX, part)
    except Exception:
        part['error'] = traceback.format_exc()
    return part


def replay_dump(path, judge, ctx, report, workers=16):
    """Parse the dump in parallel; call judge(state, ctx, part) for every state."""
    global _JUDGE, _CTX
    from . import tlaparse
    _JUDGE, _CTX = judge, ctx
    ch = tlaparse.chunks(path, workers * 4)
    with mp.get_context('fork').Pool(workers) as pool:
        for part in pool.imap_unordered(_worker, [(path, s, e) for s, e in ch]):
            if 'error' in part:
                raise MachineryError(part['error'])
            report.merge(part)


def pviolation(part, site, observable, example, own=None, prefixes=()):
    """Record a violation. With `own` (program key) it takes part in first-divergence attribution."""
    ident = '%s | %s' % (site, observable) if observable is not None else None
    if own is None:
        part['counts'][ident] = part['counts'].get(ident, 0) + 1
        part['violations'].setdefault(ident, example)
        return
    part.setdefault('instances', []).append((ident, own, tuple(prefixes)))
    ex = part.setdefault('examples', {})
    if ident is not None and sum(1 for k in ex if k[0] == ident) < 3:
        ex[(ident, own)] = example


def pkey(calls, n):
    return hashlib.sha1(json.dumps(calls[:n], sort_keys=True).encode()).hexdigest()[:16]


def bump(part, key, sub=None, n=1):
    if sub is None:
        part['extra'][key] = part['extra'].get(key, 0) + n
    else:
        d = part['extra'].setdefault(key, {})
        d[sub] = d.get(sub, 0) + n
