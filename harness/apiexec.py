"""Execute the API calls of a spec-enumerated program on the real optyx.

A call is the uniform record of Api.tla: {c, a, b, op, lit, i, j, k, s}.
`objs` maps heap handles (1-based) to live Python objects.
"""
from fractions import Fraction as Fr
import operator
import numpy as np

NONE_I = 99
# mirror of Api.SliceTab (the harness asserts equality with the table TLC prints)
SLICE_TAB = [[99, 99, 99], [0, 2, 99], [1, 99, 99], [99, 99, -1], [99, -1, 99], [0, 99, 2], [2, 5, 99], [1, 1, 99]]


def q(x):
    return Fr(x[0], x[1])


def none_i(v):
    return None if v == NONE_I else v


# Array literals of one program are ONE object per distinct literal (the user's data table, defined once and used in
# several calls): a call that modifies its array argument in place would change what the other calls denote.
SHARED = {}


def reset_shared():
    SHARED.clear()


def lit_value(l):
    if l.get('sh') and l['lk'] in ('arr', 'arrF', 'arrT', 'arri'):
        key = (l['lk'], tuple(tuple(x) for x in l['qs']), tuple(l['sh']))
        if key not in SHARED:
            SHARED[key] = _lit_value(l)
        return SHARED[key]
    return _lit_value(l)


def _lit_value(l):
    lk = l['lk']
    qs = [q(x) for x in l['qs']]
    sh = l['sh']
    if not sh:
        v = qs[0]
        if lk == 'int':
            return int(v)
        if lk == 'float':
            return float(v)
        if lk == 'tiny':
            return float(v) * 1e-12
        if lk == 'bool':
            return bool(v)
        if lk == 'npf64':
            return np.float64(float(v))
        if lk == 'npi64':
            return np.int64(int(v))
        if lk == 'npf32':
            return np.float32(float(v))
        if lk == 'npu8':
            return np.uint8(int(v))
        if lk == 'npf16':
            return np.float16(float(v))
        raise ValueError(lk)
    vals = [float(v) for v in qs]
    if lk == 'list':
        if len(sh) == 1:
            return vals
        return [vals[r * sh[1]:(r + 1) * sh[1]] for r in range(sh[0])]
    if lk == 'arr':
        return np.array(vals, dtype=float).reshape(tuple(sh))
    if lk == 'arrF':       # same values, Fortran (column-major) memory layout
        return np.asfortranarray(np.array(vals, dtype=float).reshape(tuple(sh)))
    if lk == 'arrT':       # same values, a transposed view of a C-ordered array
        return np.ascontiguousarray(np.array(vals, dtype=float).reshape(tuple(sh)).T).T
    if lk == 'arri':
        return np.array([int(v) for v in qs], dtype=np.int64).reshape(tuple(sh))
    raise ValueError(lk)


def lit_str(l):
    try:
        return repr(lit_value(l)).replace('\n', '')
    except Exception:
        return str(l)


OPS = {'+': operator.add, '-': operator.sub, '*': operator.mul, '/': operator.truediv, '**': operator.pow}


def cmp(sense, l, r):
    if sense == '<=':
        return l <= r
    if sense == '>=':
        return l >= r
    if hasattr(l, 'eq'):
        return l.eq(r)
    raise TypeError('no eq on %s' % type(l).__name__)


def bound(x):
    return None if x[1] == 0 else float(q(x))


def execute(call, objs):
    import optyx
    from optyx.core import functions as F
    from optyx.core.parameters import Parameter
    c = call['c']
    a = objs.get(call['a'])
    b = objs.get(call['b'])
    if c == 'MkVar':
        lb, ub = call['lit']['qs']
        return optyx.Variable(call['s'], lb=bound(lb), ub=bound(ub), domain=call['op'])
    if c == 'MkVec':
        lb, ub = call['lit']['qs']
        return optyx.VectorVariable(call['s'], call['i'], lb=bound(lb), ub=bound(ub), domain=call['op'])
    if c == 'MkMat':
        lb, ub = call['lit']['qs']
        return optyx.MatrixVariable(call['s'], call['i'], call['j'], lb=bound(lb), ub=bound(ub), domain=call['op'],
                                    symmetric=call['k'] == 1)
    if c == 'MkPar':
        return Parameter(call['s'], lit_value(call['lit']))
    if c == 'MkVPar':
        from optyx.core.parameters import VectorParameter
        return VectorParameter(call['s'], call['j'], values=lit_value(call['lit']))
    if c == 'MkConst':
        return optyx.Constant(lit_value(call['lit']))
    if c == 'SBin' or c == 'VBin' or c == 'MBin':
        return OPS[call['op']](a, b)
    if c in ('SBinLit', 'VBinLit', 'MBinLit'):
        return OPS[call['op']](a, lit_value(call['lit']))
    if c in ('SRBinLit', 'VRBinLit', 'MRBinLit'):
        return OPS[call['op']](lit_value(call['lit']), a)
    if c in ('SNeg', 'VNeg', 'MNeg'):
        return -a
    if c == 'SPos':
        return +a
    if c == 'Fn':
        return getattr(F, 'abs_' if call['op'] == 'abs' else call['op'])(a)
    if c == 'FnLit':
        return getattr(F, 'abs_' if call['op'] == 'abs' else call['op'])(lit_value(call['lit']))
    if c == 'Index':
        return a[call['i']]
    if c == 'Slice':
        return a[slice(none_i(call['i']), none_i(call['j']), none_i(call['k']))]
    if c == 'Sum':
        if call['k'] == 1:
            from optyx.core.vectors import vector_sum
            return vector_sum(a)
        return a.sum()
    if c == 'Dot':
        return (a @ b) if call['k'] == 1 else a.dot(b)
    if c == 'LinComb':
        lv = lit_value(call['lit'])
        return (a @ lv) if call['k'] == 1 else (lv @ a)
    if c == 'Norm':
        if call['k'] == 1:
            from optyx.core.vectors import norm
            return norm(a, call['i'])
        return a.norm(call['i'])
    if c == 'Cmp':
        return cmp(call['op'], a, b)
    if c == 'CmpLit':
        return cmp(call['op'], a, lit_value(call['lit']))
    if c == 'RCmpLit':
        return cmp(call['op'], lit_value(call['lit']), a)
    if c == 'Problem':
        prob = optyx.Problem()
        (prob.minimize if call['op'] == 'minimize' else prob.maximize)(a)
        if call['b']:
            prob.subject_to(b)
        if call['k']:
            prob.subject_to(objs[call['k']])
        return prob
    if c == 'MGet':
        k = call['k']
        def sl(i):
            t = SLICE_TAB[i - 1]
            return slice(none_i(t[0]), none_i(t[1]), none_i(t[2]))
        if k == 0:
            return a[call['i'], call['j']]
        if k == 1:
            return a[call['i'], sl(call['j'])]
        if k == 2:
            return a[sl(call['i']), call['j']]
        return a[sl(call['i']), sl(call['j'])]
    if c == 'Transpose':
        return a.T
    if c == 'Diagonal':
        if call['k'] == 1:
            from optyx.core.matrices import diag
            return diag(a)
        return a.diagonal()
    if c == 'Trace':
        if call['k'] == 1:
            from optyx.core.matrices import trace
            return trace(a)
        return a.trace()
    if c == 'Frobenius':
        from optyx.core.matrices import frobenius_norm
        return frobenius_norm(a)
    if c == 'MatVec':
        return a @ b
    if c == 'QuadForm':
        from optyx.core.matrices import quadratic_form
        return quadratic_form(a, lit_value(call['lit']))
    if c == 'MCmp':
        return cmp(call['op'], a, b)
    if c == 'MCmpLit':
        return cmp(call['op'], a, lit_value(call['lit']))
    if c == 'MRCmpLit':
        return cmp(call['op'], lit_value(call['lit']), a)
    raise ValueError('unknown call ' + c)


def kind_of(obj):
    """Observable kind of a live object, in the spec's vocabulary."""
    from optyx.core.expressions import Expression
    from optyx.core.vectors import VectorVariable, VectorExpression, ElementwisePower, ElementwiseUnary
    from optyx.core.matrices import MatrixVariable, MatrixExpression, MatrixVectorProduct
    from optyx.constraints import Constraint
    from optyx.core.parameters import VectorParameter
    if isinstance(obj, VectorParameter):
        return 'VP'
    if isinstance(obj, ElementwisePower):
        return 'EP'
    if isinstance(obj, ElementwiseUnary):
        return 'EU'
    if isinstance(obj, Expression):
        return 'S'
    if isinstance(obj, VectorVariable):
        return 'V'
    if isinstance(obj, MatrixVectorProduct):
        return 'MVP'
    if isinstance(obj, VectorExpression):
        return 'E'
    if isinstance(obj, MatrixVariable):
        return 'M'
    if isinstance(obj, MatrixExpression):
        return 'ME'
    from optyx.problem import Problem
    if isinstance(obj, Problem):
        return 'PR'
    if isinstance(obj, Constraint):
        return 'C'
    if isinstance(obj, list) and obj and all(isinstance(x, Constraint) for x in obj):
        return 'CL'
    return type(obj).__name__


def call_str(call, handles=None):
    """Human-readable rendering of one call (for samples and replay files)."""
    c = call['c']
    A = 'h%d' % call['a']
    B = 'h%d' % call['b']
    L = lit_str(call['lit']) if call['lit']['lk'] not in ('none', 'bounds') else ''
    if c == 'MkVPar':
        return 'MkVPar(%r,%d,%s)' % (call['s'], call['j'], L)
    if c in ('MkVar', 'MkVec', 'MkMat', 'MkPar', 'MkConst'):
        return '%s(%r%s)' % (c, call['s'], ('' if c in ('MkVar', 'MkConst') else ',%d' % call['i']) + (',%d' % call['j'] if c == 'MkMat' else '') + (',sym' if c == 'MkMat' and call['k'] else '') + ((',' + L) if c in ('MkPar', 'MkConst') else ''))
    if c in ('SBin', 'VBin', 'MBin'):
        return '%s %s %s' % (A, call['op'], B)
    if c in ('SBinLit', 'VBinLit', 'MBinLit'):
        return '%s %s %s' % (A, call['op'], L)
    if c in ('SRBinLit', 'VRBinLit', 'MRBinLit'):
        return '%s %s %s' % (L, call['op'], A)
    if c in ('SNeg', 'VNeg', 'MNeg'):
        return '-%s' % A
    if c == 'Fn':
        return '%s(%s)' % (call['op'], A)
    if c == 'FnLit':
        return '%s(%s)' % (call['op'], L)
    if c == 'Index':
        return '%s[%d]' % (A, call['i'])
    if c == 'Slice':
        f = lambda v: '' if v == NONE_I else str(v)
        return '%s[%s:%s:%s]' % (A, f(call['i']), f(call['j']), f(call['k']))
    if c == 'Sum':
        return ('vector_sum(%s)' if call['k'] == 1 else '%s.sum()') % A
    if c == 'Dot':
        return ('%s @ %s' if call['k'] == 1 else '%s.dot(%s)') % (A, B)
    if c == 'LinComb':
        return ('%s @ %s' % (A, L)) if call['k'] == 1 else ('%s @ %s' % (L, A))
    if c == 'Norm':
        return '%s.norm(%d)' % (A, call['i'])
    if c == 'Cmp':
        return '%s %s %s' % (A, call['op'], B)
    if c == 'CmpLit':
        return '%s %s %s' % (A, call['op'], L)
    if c == 'RCmpLit':
        return '%s %s %s' % (L, call['op'], A)
    if c == 'Problem':
        return 'Problem().%s(%s)%s%s' % (call['op'], A, '.subject_to(%s)' % B if call['b'] else '', '.subject_to(h%d)' % call['k'] if call['k'] else '')
    if c == 'MGet':
        def sl(i):
            t = SLICE_TAB[i - 1]
            f = lambda v: '' if v == NONE_I else str(v)
            return '%s:%s:%s' % (f(t[0]), f(t[1]), f(t[2]))
        k = call['k']
        return '%s[%s, %s]' % (A, call['i'] if k in (0, 1) else sl(call['i']), call['j'] if k in (0, 2) else sl(call['j']))
    if c == 'Transpose':
        return '%s.T' % A
    if c == 'Diagonal':
        return ('diag(%s)' if call['k'] else '%s.diagonal()') % A
    if c == 'Trace':
        return ('trace(%s)' if call['k'] else '%s.trace()') % A
    if c == 'Frobenius':
        return 'frobenius_norm(%s)' % A
    if c == 'MatVec':
        return '%s @ %s' % (A, B)
    if c == 'QuadForm':
        return 'quadratic_form(%s, %s)' % (A, L)
    if c == 'MCmp':
        return '%s %s %s' % (A, call['op'], B)
    if c == 'MCmpLit':
        return '%s %s %s' % (A, call['op'], L)
    if c == 'MRCmpLit':
        return '%s %s %s' % (L, call['op'], A)
    return '%s(%s)' % (c, {k: v for k, v in call.items() if v not in (0, '', None) and k not in ('c', 'lit')})


def program_str(base_calls, calls):
    out = []
    n = 0
    for c in list(base_calls) + list(calls):
        n += 1
        out.append('h%d = %s' % (n, call_str(c)))
    return '; '.join(out)
