"""Direction B on the repository's own tests: the pinned test suite is run in-process with the recorder
installed (external wrappers, nothing in /repo is touched), every Problem the tests build becomes a trace,
and every trace must be a behaviour of Solve.tla (TraceSolve.tla), with all invariants of Solve.tla
evaluated in every state.  The tests' own assertions are weak (status == OPTIMAL, a value to 2 digits);
the trace spec checks on the same executions that the solver was handed current bounds / parameters,
rebuilt artefacts after edits, one warning per gate passage, a status allowed by the solver outcome,
restored process state, objective value consistent with the values.

  python -m harness.suitetrace [--repo PATH]       prints a summary (used by ./check C07 / C13 / C20 ...)
"""
import json, os, subprocess, sys, tempfile
from . import common

RUNNER = r'''
import sys, json, os, warnings
repo, root, out = sys.argv[1:4]
sys.path.insert(0, os.path.join(repo, 'src'))
sys.path.insert(0, root)
tests = os.path.join(repo, 'tests')
if not os.path.isdir(tests):          # scratch trees hold src/ only: the pinned tests then come from /repo
    tests = '/repo/tests'
os.chdir(os.path.dirname(tests))
import optyx
assert os.path.abspath(optyx.__file__).startswith(os.path.join(os.path.abspath(repo), 'src')), optyx.__file__
import pytest
from harness import recorder

class Plugin:
    def __init__(self):
        self.rec = recorder.Recorder()
        self.tests = {}      # problem key -> test node id
        self.cur = None
    def pytest_sessionstart(self, session):
        self.rec.install()
        emit = self.rec.emit
        plug = self
        def emit2(prob, **ev):
            plug.tests.setdefault(id(prob), plug.cur)
            return emit(prob, **ev)
        self.rec.emit = emit2
    def pytest_runtest_setup(self, item):
        self.cur = item.nodeid
    def pytest_sessionfinish(self, session, exitstatus):
        self.rec.uninstall()

plug = Plugin()
rc = pytest.main(['-q', '-p', 'no:cacheprovider', '-p', 'no:xdist', '-p', 'no:randomly', '--timeout=900',
                  tests] + sys.argv[4:], plugins=[plug])
traces = [(plug.tests.get(k), plug.rec.traces[k]) for k in plug.rec.order if plug.rec.traces[k]]
json.dump({'pytest_exit': int(rc), 'traces': traces}, open(out, 'w'))
'''


def record_suite(repo, extra=()):
    """Run the suite under the recorder in a separate interpreter; -> (pytest exit code, [(test id, trace)])."""
    fd, out = tempfile.mkstemp(prefix='optyxverif-suite-', suffix='.json')
    os.close(fd)
    try:
        env = dict(os.environ, PYTHONHASHSEED='0')
        p = subprocess.run([sys.executable, '-c', RUNNER, repo, common.ROOT, out] + list(extra), capture_output=True, text=True, timeout=3000, env=env)
        try:
            d = json.load(open(out))
        except Exception:
            raise common.MachineryError('suite recording failed:\n' + (p.stdout + p.stderr)[-1500:])
        d['tail'] = p.stdout.strip().splitlines()[-1:] if p.stdout.strip() else []
        return d
    finally:
        if os.path.exists(out):
            os.unlink(out)


def validate(report, keep, label='repository test suite'):
    """Record the pinned suite on the tree under test and validate every trace (used inside ./check Cxx)."""
    from .props import c13
    d = record_suite(common.REPO[0])
    batch = [t for _, t in d['traces']]
    report.extra['suite_traces'] = {'pytest_exit': d['pytest_exit'], 'pytest_summary': d['tail'], 'problems_traced': len(batch),
                                    'events': sum(map(len, batch)), 'solves': sum(1 for t in batch for e in t if e['ev'] == 'SolveCall')}
    if len(batch) < 50:
        raise common.MachineryError('suite recording produced only %d traces: %s' % (len(batch), d['tail']))
    rej = c13.validate_traces(report, batch, label, keep=keep)
    report.extra['suite_traces']['accepted'] = len(batch) - len(rej)
    return rej


if __name__ == '__main__':
    import argparse
    ap = argparse.ArgumentParser()
    ap.add_argument('--repo', default='/repo')
    a = ap.parse_args()
    d = record_suite(a.repo)
    from . import tracecheck
    from .props import c13
    traces = [t for _, t in d['traces']]
    print('pytest exit', d['pytest_exit'], d['tail'], 'traces', len(traces), 'events', sum(map(len, traces)))
    rej = tracecheck.validate(traces)
    print('rejected', len(rej))
    import collections
    c = collections.Counter()
    for i, k, ev in rej:
        why = c13.reject_reason(traces[i], k) if k >= 0 else 'invariant %s' % ev
        c[(ev or {}).get('ev', 'end') + ' | ' + why] += 1
        if c[(ev or {}).get('ev', 'end') + ' | ' + why] == 1:
            print('---', d['traces'][i][0], 'accepted', k, 'of', len(traces[i]))
            print(json.dumps(traces[i][max(0, k - 5):k + 1])[:1500])
    for k, v in c.most_common():
        print(v, k[:200])
