"""Concretisation of the abstract classes of the Solve model (objective / constraint records by id,
bounds version, parameter version) as real optyx models.  Several spellings per class."""
import numpy as np

BOUNDS = {0: (10.0, 10.0), 1: (2.0, 1.5)}      # upper bounds of (x, y) per bounds version
PARAM = {0: 1.0, 1: 2.0}      # 1.0: the value algebraic simplifiers special-case


class World:
    """One set of live optyx objects; `kind` selects the spelling."""

    def __init__(self, kind='scalar', const_p=None):
        import optyx
        from optyx.core.parameters import Parameter
        self.kind = kind
        # const_p: the model rebuilt with the parameter replaced by a constant holding that value (C12's reference)
        self.p = Parameter('p', PARAM[0]) if const_p is None else optyx.Constant(const_p)
        if kind == 'scalar':
            self.x = optyx.Variable('x', lb=0, ub=BOUNDS[0][0])
            self.y = optyx.Variable('y', lb=0, ub=BOUNDS[0][1])
            self.z = optyx.Variable('z', lb=0, ub=3, domain='integer')
            self.a = optyx.Variable('a', lb=-1, ub=6)       # sorts before x and y (z sorts after them)
            x, y, z, p = self.x, self.y, self.z, self.p
            self.objs = {
                1: x + 2 * y,
                2: 3 * x - y + 5,
                3: (x - 3) ** 2 + (y - 1) ** 2,
                4: optyx.exp(x - 2) + (1 + p) * (y - p) ** 2 - x,      # (1 + p): a sub-expression of parameters and constants only
                5: x + 2 * y + z,
                6: (x - 3) ** 2 + (y - 1) ** 2 + (self.a - 1) ** 2,
                8: optyx.exp(-p) * x + 2 * y,
            }
            self.u = optyx.Variable('u', lb=-1, ub=6)        # occurs only in constraint 13
            self.cons = {11: x + y >= 1, 12: x * x + y * y >= 1 + p, 13: x + self.u >= 2.5}
            self.bvars = [self.x, self.y]
        else:
            self.v = optyx.VectorVariable('v', 2, lb=0, ub=BOUNDS[0][0])
            self.v[1].ub = BOUNDS[0][1]
            self.z = optyx.Variable('z', lb=0, ub=3, domain='integer')
            self.a = optyx.Variable('a0', lb=-1, ub=6)      # sorts before v[0] (z sorts after)
            v, z, p = self.v, self.z, self.p
            self.objs = {
                1: np.array([1.0, 2.0]) @ v,
                2: np.array([3.0, -1.0]) @ v + 5,
                3: (v - np.array([3.0, 1.0])).dot(v - np.array([3.0, 1.0])),
                4: optyx.exp(v[0] - 2) + (1 + p) * (v[1] - p) ** 2 - v[0],
                5: v.sum() + v[1] + z,
                6: (v - np.array([3.0, 1.0])).dot(v - np.array([3.0, 1.0])) + (self.a - 1) ** 2,
                8: optyx.exp(-p) * v[0] + 2 * v[1],
            }
            self.u = optyx.Variable('a', lb=-1, ub=6)        # occurs only in constraint 13; sorts before v
            self.cons = {11: v.sum() >= 1, 12: v.dot(v) >= 1 + p, 13: v[0] + self.u >= 2.5}
            self.bvars = [self.v[0], self.v[1]]
        self.bver = 0
        self.pver = 0

    def set_bound(self):
        self.bver = 1 - self.bver
        for var, ub in zip(self.bvars, BOUNDS[self.bver]):
            var.ub = ub

    def set_param(self):
        self.pver = 1 - self.pver
        self.p.set(PARAM[self.pver])

    def rebuilt_with_constants(self):
        """A fresh world in which the parameter is a Constant holding its current value, same bounds."""
        w = World(self.kind, const_p=PARAM[self.pver])
        if self.bver:
            w.bver = 1
            for var, ub in zip(w.bvars, BOUNDS[1]):
                var.ub = ub
        return w


class Replay:
    """Executes a history of abstract operations on a real Problem and compares every observation
    with a fresh Problem built from the same expression objects."""

    def __init__(self, kind):
        import optyx
        self.w = World(kind)
        self.prob = optyx.Problem()
        self.state = {'obj': None, 'sense': None, 'cons': []}

    def fresh(self):
        import optyx
        f = optyx.Problem()
        if self.state['obj'] is not None:
            (f.minimize if self.state['sense'] == 'minimize' else f.maximize)(self.w.objs[self.state['obj']])
        for cid in self.state['cons']:
            f.subject_to(self.w.cons[cid])
        return f

    def apply(self, op):
        """-> None, or a string describing how the observation differs from the fresh problem."""
        k = op['op']
        if k == 'SetObjective':
            (self.prob.minimize if op['sense'] == 'minimize' else self.prob.maximize)(self.w.objs[op['obj']['id']])
            self.state['obj'], self.state['sense'] = op['obj']['id'], op['sense']
        elif k == 'SubjectTo':
            cs = [self.w.cons[c['id']] for c in op['cons']]
            self.prob.subject_to(cs[0] if len(cs) == 1 else cs)
            self.state['cons'] += [c['id'] for c in op['cons']]
        elif k == 'SetBound':
            self.w.set_bound()
        elif k == 'SetParam':
            self.w.set_param()
        elif k == 'ReadVars':
            a = [v.name for v in self.prob.variables]
            n = self.prob.n_variables
            b = self.prob.get_bounds()
            f = self.fresh()
            if a != [v.name for v in f.variables] or n != f.n_variables:
                return 'variables differ from a fresh problem: %s vs %s' % (a, [v.name for v in f.variables])
            if b != f.get_bounds():
                return 'get_bounds() differs from a fresh problem: %s vs %s' % (b, f.get_bounds())
        elif k == 'Solve':
            kw = {}
            o = op.get('opts')
            if o:
                if not o['useHess']:
                    kw['use_hessian'] = False
                if o['tol']:
                    kw['tol'] = 1e-9
                if o['maxiter']:
                    kw['maxiter'] = 300
                if o['x0']:
                    raise ValueError('x0 option has no concretisation in history replays')
            s = outcome(lambda: self.prob.solve(method=op['m'], strict=op['strict'], **kw))
            t = outcome(lambda: self.fresh().solve(method=op['m'], strict=op['strict'], **kw))
            return compare(s, t)
        else:
            raise ValueError('history operation %r has no concrete counterpart' % (op,))
        return None


def outcome(fn):
    import warnings
    with warnings.catch_warnings(record=True) as w:
        warnings.simplefilter('always')
        try:
            s = fn()
        except Exception as e:
            return ('raised', type(e).__name__, sorted(str(x.message)[:60] for x in w if 'integer/binary' in str(x.message)))
    return ('solution', s, sorted(str(x.message)[:60] for x in w if 'integer/binary' in str(x.message)))


def compare(s, t, tol=1e-6):
    if s[0] != t[0]:
        return 'outcome kind differs: %s vs fresh %s' % (s[:2] if s[0] == 'raised' else s[1].status.value, t[:2] if t[0] == 'raised' else t[1].status.value)
    if s[0] == 'raised':
        return None if s[1] == t[1] else 'raises %s, fresh problem raises %s' % (s[1], t[1])
    a, b = s[1], t[1]
    if a.status != b.status:
        return 'status %s, fresh problem %s' % (a.status.value, b.status.value)
    if len(s[2]) != len(t[2]) and (not s[2] or not t[2]):
        return 'integrality warning differs from a fresh problem'
    if sorted(a.values) != sorted(b.values):
        return 'value keys differ from a fresh problem'
    if a.status.value == 'optimal':
        for k in b.values:
            if abs(a.values[k] - b.values[k]) > tol * (1 + abs(b.values[k])):
                return 'solution differs from a fresh problem (%s: %r vs %r)' % (k, a.values[k], b.values[k])
        if a.objective_value is not None and b.objective_value is not None and abs(a.objective_value - b.objective_value) > tol * (1 + abs(b.objective_value)):
            return 'objective value differs from a fresh problem'
    return None
