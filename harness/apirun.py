"""Run one ApiGen configuration through TLC and replay every enumerated program into optyx."""
import os
from . import tlc, tlaparse, common, progjudge
from .interp import name_of


def base_from_log(log):
    b = tlaparse.extract_printed(log, 'BASE')
    if b is None:
        raise common.MachineryError('MC module did not print its BASE line')
    calls, heap, names = b[1], b[2], b[3]
    if len(b) > 4:
        from . import apiexec
        if b[4] != apiexec.SLICE_TAB:
            raise common.MachineryError('apiexec.SLICE_TAB differs from Api.SliceTab')
    if isinstance(names, tuple) and names[0] == 'set':
        names = names[1]
    return calls, heap, [tuple(n) for n in names]


def run_config(report, module, observer=None, overrides=None, judge_generic=True, spec_only=False,
               tag='', wd=None, workers=16, report_kinds=None, cfg=None, timeout=1800):
    """TLC BFS over `module` (exhaustive within its MaxCalls), dump every state, replay all."""
    own = wd is None
    wd = wd or tlc.workdir()
    try:
        r = tlc.run(module, cfg=cfg, wd=wd, dump=not spec_only, overrides=overrides, workers=workers, timeout=timeout)
        report.add_tlc(r)
        if spec_only:
            return r
        calls, heap, names = base_from_log(r.log)
        ctx = progjudge.Ctx(calls, heap, names, common.rng(module + tag), observer=observer,
                            judge_generic=judge_generic)
        ctx.report_kinds = report_kinds
        common.replay_dump(r.dump, progjudge.judge_state, ctx, report, workers=workers)
        return r
    finally:
        if own:
            tlc.cleanup(wd)


def varmap(objs):
    """name -> Variable for every variable reachable from the base objects."""
    from optyx.core.expressions import Variable
    from optyx.core.vectors import VectorVariable
    from optyx.core.matrices import MatrixVariable
    m = {}
    for o in objs.values():
        if isinstance(o, Variable):
            m[o.name] = o
        elif isinstance(o, VectorVariable):
            for v in o:
                m[v.name] = v
        elif isinstance(o, MatrixVariable):
            for i in range(o.rows):
                for j in range(o.cols):
                    m[o[i, j].name] = o[i, j]
    return m
