"""Parser for TLA+ values as printed by TLC (-dump, -simulate, PrintT).

records -> dict, sequences/tuples -> list, sets -> ('set', [..]), functions (k :> v @@ ..) -> dict
with frozen keys (tuples), strings -> str, ints -> int, TRUE/FALSE -> bool.
"""
import re, os

TOK = re.compile(r'\s*(<<|>>|\|->|:>|@@|\[|\]|\(|\)|\{|\}|,|"(?:[^"\\]|\\.)*"|-?\d+|TRUE|FALSE|[A-Za-z_][A-Za-z0-9_]*)')


def tokenize(s):
    pos = 0
    out = []
    n = len(s)
    m = TOK.match
    while True:
        r = m(s, pos)
        if not r:
            if s[pos:].strip() == "":
                break
            raise ValueError("cannot tokenize at: " + s[pos:pos + 60])
        out.append(r.group(1))
        pos = r.end()
        if pos >= n:
            break
    return out


def freeze(v):
    if isinstance(v, list):
        return tuple(freeze(x) for x in v)
    if isinstance(v, dict):
        return tuple(sorted((k, freeze(x)) for k, x in v.items()))
    if isinstance(v, tuple):
        return tuple(freeze(x) for x in v)
    return v


def parse(toks, i=0):
    t = toks[i]
    if t == '<<':
        i += 1
        xs = []
        while toks[i] != '>>':
            v, i = parse(toks, i)
            xs.append(v)
            if toks[i] == ',':
                i += 1
        return xs, i + 1
    if t == '[':
        i += 1
        d = {}
        while toks[i] != ']':
            k = toks[i]
            if toks[i + 1] != '|->':
                raise ValueError("expected |-> after " + k)
            v, i = parse(toks, i + 2)
            d[k] = v
            if toks[i] == ',':
                i += 1
        return d, i + 1
    if t == '{':
        i += 1
        xs = []
        while toks[i] != '}':
            v, i = parse(toks, i)
            xs.append(v)
            if toks[i] == ',':
                i += 1
        return ('set', xs), i + 1
    if t == '(':
        i += 1
        d = {}
        while toks[i] != ')':
            k, i = parse(toks, i)
            if toks[i] != ':>':
                raise ValueError("expected :>")
            v, i = parse(toks, i + 1)
            d[freeze(k)] = v
            if toks[i] == '@@':
                i += 1
        return d, i + 1
    if t[0] == '"':
        return t[1:-1].replace('\\"', '"').replace('\\\\', '\\'), i + 1
    if t == 'TRUE':
        return True, i + 1
    if t == 'FALSE':
        return False, i + 1
    if t[0] == '-' or t[0].isdigit():
        return int(t), i + 1
    return ('id', t), i + 1


def parse_value(s):
    v, _ = parse(tokenize(s))
    return v


_SPLIT = re.compile(r'^/\\ ', re.M)


def parse_state(txt):
    """'/\\ a = ..\n/\\ b = ..' -> {a: .., b: ..}"""
    out = {}
    for part in _SPLIT.split(txt)[1:]:
        name, val = part.split(' = ', 1)
        out[name.strip()] = parse_value(val)
    return out


def iter_states(path, start=0, end=None):
    """Yield the text of every state whose 'State N:' header begins in [start, end)."""
    size = os.path.getsize(path)
    if end is None:
        end = size
    with open(path, 'rb') as f:
        f.seek(start)
        if start:
            f.readline()          # skip partial line
        cur = None
        while True:
            pos = f.tell()
            line = f.readline()
            if not line:
                break
            if line.startswith(b'State '):
                if cur is not None:
                    yield b''.join(cur).decode()
                    cur = None
                if pos >= end:
                    return
                cur = []
            elif cur is not None:
                cur.append(line)
        if cur is not None:
            yield b''.join(cur).decode()


def chunks(path, n):
    size = os.path.getsize(path)
    step = max(1, size // n)
    bounds = [i * step for i in range(n)] + [size]
    return [(bounds[i], bounds[i + 1]) for i in range(n) if bounds[i] < bounds[i + 1]]


def extract_printed(log, tag):
    """Find PrintT(<<"tag", ...>>) output in a TLC log and parse it (bracket matching)."""
    m = re.search(r'<<\s*"%s"' % re.escape(tag), log)
    if not m:
        return None
    i = m.start()
    depth = 0
    j = i
    while j < len(log):
        if log.startswith('<<', j):
            depth += 1
            j += 2
            continue
        if log.startswith('>>', j):
            depth -= 1
            j += 2
            if depth == 0:
                break
            continue
        if log[j] == '"':
            j += 1
            while log[j] != '"':
                j += 2 if log[j] == '\\' else 1
        j += 1
    return parse_value(log[i:j])
