"""Recording executions of the real optyx as traces for TraceSolve.tla.

Nothing in /repo is touched: the recorder wraps Problem.minimize / maximize / subject_to / solve /
variables and the two solver seams (optyx.solvers.scipy_solver.minimize, scipy.optimize.linprog)
inside the harness process.  It never reads Problem.variables itself (that would fill a cache).
"""
import json, math, re, sys, warnings
import numpy as np

LP_METHODS = {'linprog', 'highs', 'highs-ds', 'highs-ipm'}


def msg_class(m):
    m = str(m).lower()
    if 'maximum' in m and 'iteration' in m:
        return 'maxiter'
    if 'infeasible' in m:
        return 'infeasible'
    if 'positive directional derivative' in m:
        return 'pdd'
    return 'other'


def walk(expr, seen=None):
    """Generic traversal of an expression object graph (scalars, vectors, matrices)."""
    if seen is None:
        seen = set()
    stack = [expr]
    while stack:
        o = stack.pop()
        if id(o) in seen or o is None or isinstance(o, (int, float, str, bool, np.ndarray, np.generic)):
            continue
        seen.add(id(o))
        yield o
        if isinstance(o, (list, tuple)):
            stack.extend(o)
            continue
        for cls in type(o).__mro__:
            for s in getattr(cls, '__slots__', ()):
                if s.startswith('_') and s not in ('_variables', '_expressions'):
                    continue
                try:
                    stack.append(getattr(o, s))
                except AttributeError:
                    pass


def variables_of(exprs):
    from optyx.core.expressions import Variable
    out = {}
    for e in exprs:
        for o in walk(e):
            if isinstance(o, Variable):
                out[o.name] = o
    return out


def parameters_of(exprs):
    from optyx.core.parameters import Parameter
    out = []
    for e in exprs:
        for o in walk(e):
            if isinstance(o, Parameter):
                out.append(o)
    return out


def natkey(s):
    return [int(t) if t.isdigit() else t for t in re.split(r'(\d+)', s)]


class Recorder:
    FTOL = 1e-4

    def __init__(self):
        self.traces = {}         # problem key -> list of events
        self.order = []
        self.ids = {}            # id(obj) -> small int
        self.keep = []           # keep recorded expressions alive (no id reuse)
        self.depth = 0
        self.cur = None
        self.installed = False
        self.inner_minimize = None    # when set, called instead of the real scipy minimize (stubs / fault injection)
        self.inner_linprog = None

    # ------------------------------------------------------------ identities / attributes
    def oid(self, o):
        k = id(o)
        if k not in self.ids:
            self.ids[k] = len(self.ids) + 1
            self.keep.append(o)
        return self.ids[k]

    def degclass(self, e):
        from optyx import analysis
        try:
            d = analysis.compute_degree(e)
        except Exception:
            d = None
        if d is None or d > 2:
            return 9
        return 2 if d == 2 else 1

    def nc(self, e):
        return any(v.domain != 'continuous' for v in variables_of([e]).values())

    def emit(self, prob, **ev):
        k = id(prob)
        if k not in self.traces:
            self.traces[k] = []
            self.order.append(k)
            self.keep.append(prob)
        self.traces[k].append(ev)

    def exprs(self, prob):
        return ([prob._objective] if prob._objective is not None else []) + [c.expr for c in prob._constraints]

    def sig(self, prob):
        vs = variables_of(self.exprs(prob))
        b = tuple(sorted((n, v.lb, v.ub) for n, v in vs.items()))
        p = tuple((id(q), float(np.sum(q.value))) for q in parameters_of(self.exprs(prob)))
        return b, p

    def note_mutations(self, prob):
        """Bounds and parameters are mutated behind the Problem's back: detect and log them."""
        st = self.state.setdefault(id(prob), {})
        b, p = self.sig(prob)
        if 'b' in st and st['b'] != b:
            self.emit(prob, ev='SetBound')
        if 'p' in st and st['p'] != p:
            self.emit(prob, ev='SetParam')
        st['b'], st['p'] = b, p

    def xclass(self, prob, values):
        if not values:
            return 'feas'
        try:
            vc = 0.0
            for c in prob._constraints:
                v = float(c.violation(values))
                if not math.isfinite(v) or not math.isfinite(float(c.evaluate(values))):
                    return 'viol_con'          # the constraint function is undefined at the point: not satisfied
                e0 = float(c.evaluate(values))
                scale = 1.0 + abs(e0)
                if v > self.FTOL * scale:
                    # "lhs - rhs" is small at an active constraint whatever the size of lhs and rhs: the tolerance must
                    # be relative to the magnitude of the terms (budget rows of 1e12), measured by scaling the point
                    try:
                        e1 = float(c.evaluate({k: x * (1.0 + 1e-7) for k, x in values.items()}))
                        mag = abs(e1 - e0) / 1e-7
                    except Exception:
                        mag = 0.0
                    if not math.isfinite(mag):
                        mag = 0.0
                    scale += mag
                if v > self.FTOL * scale:
                    vc = max(vc, v)
            if vc > 0:
                return 'viol_con'
            for n, v in variables_of(self.exprs(prob)).items():
                if n not in values:
                    continue
                x = values[n]
                if not math.isfinite(x):
                    return 'viol_bnd'
                if v.lb is not None and x < v.lb - self.FTOL * (1 + abs(v.lb)):
                    return 'viol_bnd'
                if v.ub is not None and x > v.ub + self.FTOL * (1 + abs(v.ub)):
                    return 'viol_bnd'
        except Exception:
            return 'feas'
        return 'feas'

    # ------------------------------------------------------------ installation
    def install(self):
        import scipy.optimize
        import optyx.solvers.scipy_solver as ss
        from optyx.problem import Problem
        if self.installed:
            return
        self.installed = True
        self.state = {}
        R = self
        self.real = dict(minimize=ss.minimize, linprog=scipy.optimize.linprog, solve=Problem.solve, pmin=Problem.minimize,
                         pmax=Problem.maximize, pst=Problem.subject_to, pvars=Problem.variables)

        def p_minimize(self, expr):
            r = R.real['pmin'](self, expr)
            R.emit(self, ev='Minimize', obj={'id': R.oid(self._objective), 'deg': R.degclass(self._objective), 'nc': R.nc(self._objective)})
            R.note_mutations(self)
            return r

        def p_maximize(self, expr):
            r = R.real['pmax'](self, expr)
            R.emit(self, ev='Maximize', obj={'id': R.oid(self._objective), 'deg': R.degclass(self._objective), 'nc': R.nc(self._objective)})
            R.note_mutations(self)
            return r

        def p_subject_to(self, constraint):
            n0 = len(self._constraints)
            r = R.real['pst'](self, constraint)
            new = self._constraints[n0:]
            R.emit(self, ev='SubjectTo', cons=[{'id': R.oid(c), 'deg': R.degclass(c.expr), 'eq': c.sense == '==', 'nc': R.nc(c.expr)} for c in new])
            R.note_mutations(self)
            return r

        def p_variables(self):
            if R.depth > 0:
                return R.real['pvars'].fget(self)
            R.note_mutations(self)
            vs = R.real['pvars'].fget(self)
            want = sorted(variables_of(R.exprs(self)), key=natkey)
            R.emit(self, ev='ReadVars', namesOK=[v.name for v in vs] == want)
            return vs

        def w_min(fun, x0, **kw):
            prob = R.cur
            if prob is None:
                return R.real['minimize'](fun, x0, **kw)
            R.flush_warnings(prob)
            cache = prob._solver_cache
            st = R.state[id(prob)]
            rebuilt = id(cache) != st.get('cache_id')
            st['cache_id'] = id(cache)
            st['cache_keep'] = cache
            bnds = kw.get('bounds')
            vs = prob._variables or []
            cur = [(v.lb if v.lb is not None else -np.inf, v.ub if v.ub is not None else np.inf) for v in vs]
            bounds_current = True if bnds is None else [tuple(map(float, b)) for b in bnds] == [tuple(map(float, b)) for b in cur]
            params_current = True
            try:
                vals = {v.name: float(x0[i]) for i, v in enumerate(vs)}
                want = float(np.asarray(prob._objective.evaluate(vals)).item())
                if prob._sense == 'maximize':
                    want = -want
                have = float(fun(np.asarray(x0, dtype=float)))
                if math.isfinite(want) and math.isfinite(have):
                    params_current = abs(have - want) <= 1e-9 * (1 + abs(want))
            except Exception:
                pass
            ckw = st.get('kw', {})
            opts_ok = True
            try:
                if ckw.get('x0') is not None:
                    opts_ok = opts_ok and np.array_equal(np.asarray(x0, dtype=float), np.asarray(ckw['x0'], dtype=float))
                opts_ok = opts_ok and (kw.get('tol') == ckw.get('tol'))
                have_mi = (kw.get('options') or {}).get('maxiter')
                opts_ok = opts_ok and (have_mi == ckw.get('maxiter'))
            except Exception:
                opts_ok = False
            k = st.get('entries', 0)
            st['entries'] = k + 1
            R.emit(prob, ev='SolverEnter', k=k, fn='minimize', optsOK=bool(opts_ok), method=str(kw.get('method')), has_jac=kw.get('jac') is not None,
                   has_hess=kw.get('hess') is not None, hook_swapped=warnings.showwarning is not st['entry_hook'],
                   n_cons=len(kw.get('constraints') or ()), rebuilt=bool(rebuilt), bounds_current=bool(bounds_current),
                   params_current=bool(params_current))
            try:
                r = (R.inner_minimize or R.real['minimize'])(fun, x0, **kw)
            except BaseException as e:
                R.emit(prob, ev='SolverExit', raised=type(e).__name__, success=False, msg='other', x='feas', lp=9)
                raise
            xv = {v.name: float(r.x[i]) for i, v in enumerate(vs)} if getattr(r, 'x', None) is not None else {}
            R.emit(prob, ev='SolverExit', raised='', success=bool(r.success), msg='ok' if r.success else msg_class(r.message),
                   x=R.xclass(prob, xv), lp=9)
            return r

        def w_lp(*a, **kw):
            prob = R.cur
            if prob is None:
                return R.real['linprog'](*a, **kw)
            R.flush_warnings(prob)
            cache = prob._lp_cache
            st = R.state[id(prob)]
            rebuilt = id(cache) != st.get('lp_cache_id')
            st['lp_cache_id'] = id(cache)
            st['lp_keep'] = cache
            vs = prob._variables or []
            bnds = kw.get('bounds')
            cur = [(v.lb, v.ub) for v in vs]
            bounds_current = True if bnds is None else [tuple(b) for b in bnds] == cur
            # the cost vector handed over must be the objective's coefficients for the parameters' CURRENT values:
            # for an affine objective c_j = f(e_j) - f(0) (negated under maximisation)
            params_current = True
            try:
                cpass = np.asarray(a[0] if a else kw.get('c'), dtype=float).reshape(-1)
                zero = {v.name: 0.0 for v in vs}
                f0 = float(np.asarray(prob._objective.evaluate(zero)).item())
                ctrue = np.array([float(np.asarray(prob._objective.evaluate(dict(zero, **{v.name: 1.0}))).item()) - f0 for v in vs])
                if prob._sense == 'maximize':
                    ctrue = -ctrue
                if len(cpass) == len(ctrue) and np.all(np.isfinite(ctrue)):
                    params_current = bool(np.allclose(cpass, ctrue, rtol=1e-9, atol=1e-12))
            except Exception:
                params_current = True
            k = st.get('entries', 0)
            st['entries'] = k + 1
            R.emit(prob, ev='SolverEnter', k=k, fn='linprog', optsOK=True, method=str(kw.get('method')), has_jac=False, has_hess=False,
                   hook_swapped=False, n_cons=0, rebuilt=bool(rebuilt), bounds_current=bool(bounds_current), params_current=bool(params_current))
            try:
                r = (R.inner_linprog or R.real['linprog'])(*a, **kw)
            except BaseException as e:
                R.emit(prob, ev='SolverExit', raised=type(e).__name__, success=False, msg='ok', x='feas', lp=4)
                raise
            xv = {}
            if r.x is not None and int(r.status) in (0, 1):
                xv = {v.name: float(r.x[i]) for i, v in enumerate(vs)}
            R.emit(prob, ev='SolverExit', raised='', success=bool(r.success), msg='ok', x=R.xclass(prob, xv), lp=int(r.status))
            return r

        def p_solve(self, method='auto', strict=False, **kw):
            if R.depth > 0:
                return R.real['solve'](self, method=method, strict=strict, **kw)
            R.note_mutations(self)
            st = R.state.setdefault(id(self), {})
            st['entries'] = 0
            st['cache_id'] = id(self._solver_cache)
            st['lp_cache_id'] = id(self._lp_cache)
            st['kw'] = dict(kw)
            R.emit(self, ev='SolveCall', m=str(method), strict=bool(strict),
                   opts={'useHess': bool(kw.get('use_hessian', True)), 'x0': kw.get('x0') is not None,
                         'tol': kw.get('tol') is not None, 'maxiter': kw.get('maxiter') is not None})
            R.depth += 1
            R.cur = self
            reclimit = sys.getrecursionlimit()
            caught = []
            try:
                return p_solve_recorded(self, method, strict, kw, st, reclimit, caught)
            finally:
                # recording must be transparent to the caller (the repository's tests assert on warnings)
                for w in caught:
                    warnings.warn_explicit(w.message, w.category, w.filename, w.lineno)

        def p_solve_recorded(self, method, strict, kw, st, reclimit, caught):
            with warnings.catch_warnings(record=True) as wlist:
                caught_ref = caught
                warnings.simplefilter('always')
                st['entry_hook'] = warnings.showwarning
                st['wlist'] = wlist
                st['caught'] = caught_ref
                st['wseen'] = 0
                try:
                    s = R.real['solve'](self, method=method, strict=strict, **kw)
                except BaseException as e:
                    caught_ref.extend(wlist)
                    R.flush_warnings(self)
                    R.emit(self, ev='Raise', exc=type(e).__name__, hook_restored=warnings.showwarning is st['entry_hook'],
                           reclimit_restored=sys.getrecursionlimit() == reclimit)
                    raise
                finally:
                    R.depth -= 1
                    R.cur = None
                caught_ref.extend(wlist)
                R.flush_warnings(self)
                hook_ok = warnings.showwarning is st['entry_hook']
            objok = True
            keysok = True
            if s.values:
                names = sorted(variables_of(R.exprs(self)), key=natkey)
                keysok = list(s.values) == names
                if s.objective_value is not None:
                    try:
                        ov = float(np.asarray(self._objective.evaluate(s.values)).item())
                        objok = abs(ov - s.objective_value) <= 1e-6 * (1 + abs(ov))
                    except Exception:
                        objok = True
            R.emit(self, ev='Return', status=s.status.value, x=R.xclass(self, s.values), hook_restored=bool(hook_ok),
                   reclimit_restored=sys.getrecursionlimit() == reclimit, objOK=bool(objok), keysOK=bool(keysok))
            return s

        Problem.minimize = p_minimize
        Problem.maximize = p_maximize
        Problem.subject_to = p_subject_to
        Problem.solve = p_solve
        Problem.variables = property(p_variables)
        ss.minimize = w_min
        scipy.optimize.linprog = w_lp

    def flush_warnings(self, prob):
        st = self.state[id(prob)]
        wl = st.get('wlist')
        if wl is None:
            return
        while st['wseen'] < len(wl):
            w = wl[st['wseen']]
            st['wseen'] += 1
            m = str(w.message)
            if 'integer/binary domains' in m:
                mm = re.search(r'Variables \[(.*)\] have', m)
                got = mm.group(1) if mm else ''
                vs = variables_of(self.exprs(prob))
                want = sorted((n for n, v in vs.items() if v.domain != 'continuous'), key=natkey)
                # names may contain commas (D[0,1]): compare the rendered list, in any order of the names
                ok = got == ', '.join(want) or sorted(got.replace(' ', '')) == sorted(''.join(want) + ',' * (len(want) - 1))
                self.emit(prob, ev='Warn', namesOK=bool(ok))

    def uninstall(self):
        import scipy.optimize
        import optyx.solvers.scipy_solver as ss
        from optyx.problem import Problem
        if not self.installed:
            return
        Problem.minimize = self.real['pmin']
        Problem.maximize = self.real['pmax']
        Problem.subject_to = self.real['pst']
        Problem.solve = self.real['solve']
        Problem.variables = self.real['pvars']
        ss.minimize = self.real['minimize']
        scipy.optimize.linprog = self.real['linprog']
        self.installed = False

    def batch(self):
        return [self.traces[k] for k in self.order if self.traces[k]]
