"""Regenerates MANIFEST.json from the table of checks below (single source of truth)."""
import json, os
ROOT = os.path.dirname(os.path.dirname(os.path.abspath(__file__)))
PY = '/venv/bin/python'

CHECKS = {}     # filled by register()
NA = {}


SUITE = ' The pinned test suite of the repository is additionally run under the recorder (804 tests, 111 problems, 65 solves) and every recorded trace is validated against TraceSolve.tla with the invariants of Solve.tla evaluated in every state.'
ADDENDA = {
    'C06': SUITE + ' The edit histories of the Solve graph (incl. the whole objective-replacement matrix) are replayed with the real solvers and validated the same way; TLC-enumerated linear problems are solved and every OPTIMAL point checked against the exact constraint terms.',
    'C07': SUITE + ' Every vector / matrix handle of a program is looked up on one Solution object in both orders (views with equal display names).',
    'C12': SUITE + ' MC_C12 enumerates programs over a float Parameter, a same-named Parameter initialised from a NumPy integer and VectorParameters (MkVPar in Api.tla), updated element-wise and through VectorParameter.set.',
    'C13': SUITE + ' The shortest / a random history of every (cache-filling operation, edit, observation) stratum and the whole objective-replacement matrix are always replayed.',
    'C18': SUITE,
    'C20': SUITE + ' RecLimit.tla models the second piece of process-global state (increased_recursion_limit entered through fresh objects and through one kept object, with solves that succeed, fail or let a BaseException through); C20_LimitRestored is model-checked and every behaviour is replayed.',
    'C14': ' GlobalCaches.tla has three action groups: the LRU caches (name-equal leaves, capacity, fillers), object lifetime with identity-keyed memoisation (Build / Drop / Degree, addresses reused after collection), and a caller-owned array shared by successive models and refreshed in place (BuildQF / Mutate / GradQF); each group is model-checked and all its histories (or a stratified sample) are replayed.',
    'C09': ' Wiring.tla also crosses the solve options (use_hessian, tol, x0, maxiter) and a deep loop-built objective class with every method.',
    'C08': ' Generated LPs with data from 1e-6 to 1e12 are solved by every LP method under the recorder: the status must be the image of the linprog status code (Solve.tla LPReturn, trace validation) and equal a direct linprog call; every solved problem is re-oriented with the same objective object and compared with the flipped reference.',
}


def register(pid, technique, text, note, design_ref, thorough=True):
    CHECKS[pid] = dict(technique=technique, text=text, note=note, design_ref=design_ref, thorough=thorough)


register('C11', 'TLA+ Api spec: TLC-enumerated API programs replayed into optyx, exact denotations as oracle',
         'TLC enumerates exhaustively every vector-API program up to MaxCalls calls over the C11 signature, checks the shape/typing algebra and denotation closure on the spec, and every enumerated program is executed on the real library and compared (raise-or-not, element names, values at rational points) with the exact denotation. Bounded-exhaustive, not a proof.',
         'Trusted: TLC; the hand-written denotation rules in spec/Api.tla (element-wise NumPy semantics); the 80-line term interpreter (Fractions / mpmath).',
         'DESIGN.md 3 (C11)')

API_NOTE = 'Trusted: TLC; the hand-written denotation rules in spec/Api.tla and the derivative table in spec/Diff.tla (TLC checks the table exact and the simplifier sound on the rational fragment, MC_Diff); the term interpreter (Fractions / mpmath at 50 digits). Bounded-exhaustive over the enumerated programs, variable orders and sample points; not a proof.'
register('C01', 'TLA+ Api spec: TLC-enumerated programs replayed; compiled callables vs exact denotation on every variable order and internal path',
         'TLC enumerates every API program up to MaxCalls calls whose result is scalar; for each, every permutation/superset variable list and the cache-miss, cache-hit and forced-iterative compile paths are executed on optyx and compared with the exact value of the denotation at rational points; parameters are changed after compiling.',
         API_NOTE, 'DESIGN.md 3 (C01)')
register('C02', 'TLA+ Diff spec (derivative table checked exact by TLC) as oracle for gradient() on TLC-enumerated programs',
         'TLC checks that the spec derivative table is exact on the rational fragment and enumerates the programs; gradient(e, v) of the real library is evaluated at regular rational points for every declared variable and compared with the spec derivative; absent variables must give exactly 0.',
         API_NOTE, 'DESIGN.md 3 (C02)')
register('C03', 'TLA+ Api/Diff spec: compiled gradients/Jacobians of TLC-enumerated programs vs matrix of spec derivatives, all variable orders',
         'For every enumerated program compile_gradient, CompiledExpression.gradient and compile_jacobian (single and multi-row) are executed for every permutation/superset variable list and compared entry by entry with the spec derivatives; closure names are recorded as path coverage.',
         API_NOTE, 'DESIGN.md 3 (C03)')
register('C17', 'TLA+ Diff spec second derivatives (symmetry checked by TLC) as oracle for compute_hessian / compile_hessian',
         'For every enumerated program over <= 3 variables both Hessian APIs are executed for every permutation/superset variable list and compared, entry by entry and for symmetry, with the spec second derivatives at regular rational points.',
         API_NOTE, 'DESIGN.md 3 (C17)')
register('C10', 'TLA+ Api spec: every comparison operand-kind pair enumerated by TLC; constraint semantics and solver-side functions captured at the minimize seam vs spec',
         'TLC enumerates every comparison (lhs kind x rhs kind x sense x reflected) over the C10 signature; for each constraint evaluate / violation / is_satisfied are compared exactly at rational points, and one solve through a stubbed minimize seam captures type / fun / jac of every solver constraint, compared with the spec ScipyCon (fun >= 0 exactly on the satisfied set, jac = D fun).',
         API_NOTE, 'DESIGN.md 3 (C10)')
register('C04', 'TLA+ Poly/Terms spec: exact total degree of the normal form (TLC) as oracle for degree / linearity on TLC-enumerated programs, both traversals',
         'TLC computes the exact rational normal form and total degree of every enumerated expression; the degree / is_linear / is_quadratic answers of optyx (recursive and forced-iterative traversal, cached and fresh) are checked for the implication claimed d => true degree <= d; claims on non-rational forms are confirmed by a high-precision finite-difference test before being reported.',
         API_NOTE, 'DESIGN.md 3 (C04)')
register('C05', 'TLA+ Analysis spec: LP(P) computed by TLC from exact normal forms (C05_LPDenotes model-checked) vs LinearProgramExtractor on TLC-enumerated problems',
         'TLC enumerates problems built from linear spellings and computes their LP data (c, c0, rows, right-hand sides, bounds, column names) exactly; the thorough config model-checks that these data denote the model on a grid of affinely independent points; the extractor output of optyx is compared field by field.',
         API_NOTE, 'DESIGN.md 3 (C05)')
register('C16', 'TLA+ Names/Analysis spec: natural order on character codes and ProblemVars computed by TLC vs Problem.variables / get_bounds / Solution keys',
         'TLC enumerates problems over names that separate natural from lexicographic order, reversed / strided views, symmetric matrices and binary vectors, and computes the variable list (natural sort specified in TLA+ on character codes), bounds and domains; optyx must report exactly these, also as keys of Solution.values (stubbed solver seams).',
         API_NOTE, 'DESIGN.md 3 (C16)')

HIST_NOTE = 'Trusted: TLC; the abstraction of Solve.tla (objective / constraint classes by degree and integrality, bounds / parameter versions, solver outcome classes) and the concretisation tables in harness/concrete.py; the recorder (harness/recorder.py) that turns real executions into events; SciPy / HiGHS as the solver under the seam. Model checking is exhaustive for the abstract model (fixpoint); conformance covers the replayed behaviours and recorded traces only.'
register('C13', 'TLA+ Solve spec model-checked to fixpoint; (cache-filled state, edit, observation) triples of its state graph replayed into real Problems; recorded traces validated by TraceSolve.tla',
         'Solve.tla (problem, four caches, multi-step solve) is model-checked exhaustively (C13_CachesCoherent, C13_SolveFresh hold for histories of any length at the model level); histories covering the invalidation matrix are generated from its state graph, executed on real Problems and compared with fresh Problems; every execution is recorded and must be a behaviour of the spec (cache rebuilt when the spec says it is invalid, bounds handed to the solver are the current ones).',
         HIST_NOTE, 'DESIGN.md 3 (C13)')
register('C06', 'TLA+ Solve spec: every solver-outcome behaviour enumerated by TLC replayed through a stubbed seam; status relation checked by trace validation; real-solver families',
         'C06_OptimalFeasible is model-checked on Solve.tla; TLC enumerates every complete solve behaviour (15 methods x outcome classes x retry) and each is replayed into the real solve() through stubbed minimize / linprog seams; the recorded status must be allowed by the spec for the recorded outcome; generated feasible / infeasible problems are solved with the real SciPy on 13 methods and validated the same way.',
         HIST_NOTE, 'DESIGN.md 3 (C06)')
register('C07', 'TLA+ Solve spec behaviours (min and max) replayed through stubbed seams; objective/keys observations validated by TraceSolve.tla; Solution[handle] against spec view names',
         'Every complete solve behaviour for minimise and maximise over quadratic, linear-with-constant and non-polynomial objectives is replayed with stubbed solvers returning chosen points; the recorder evaluates the user objective at the returned values and compares value keys with the variables occurring, and the trace spec rejects a false observation; Solution[handle] is checked for every view enumerated by TLC.',
         HIST_NOTE, 'DESIGN.md 3 (C07)')
register('C20', 'TLA+ Solve spec: TLC-enumerated fault schedules replayed with faults injected at the solver entry and in the k-th callback; globals, outcome and next solve checked; trace validation',
         'C20_GlobalsRestored / C20_FaultKeepsCaches are model-checked on Solve.tla; every behaviour containing a fault (route x method x exception class x first entry / retry) is replayed with the fault injected at the seam entry and inside fun / jac / hess / constraint callbacks of the real solver, plus build-stage faults; afterwards the warning hook, the recursion limit, the outcome and the next solve (against a fresh-problem baseline) are checked, and all traces validated.',
         HIST_NOTE, 'DESIGN.md 3 (C20)')
register('C12', 'TLA+ Solve spec (no artefact snapshots a parameter) model-checked; SetParam histories of its graph replayed and compared at the solver seam with a constant-rebuilt model; trace validation; Api-level callables compiled before set()',
         'C12_NoFrozenParam and C13_SolveFresh are model-checked on Solve.tla; histories containing SetParam are generated from the model graph, replayed, and every solve is compared at the solver seam (x0, bounds, fun / jac / hess, constraint callables at probe points) and in outcome with a model rebuilt with Constant(current value); TraceSolve validates params_current; value / gradient / Jacobian / Hessian callables compiled before Parameter.set are checked after it on TLC-enumerated programs.',
         HIST_NOTE, 'DESIGN.md 3 (C12)')
register('C18', 'TLA+ Solve spec integrality gate model-checked; nc behaviours replayed through stubbed seams with trace validation; relaxed-vs-continuous solves; TLC-enumerated views carry declared domains/bounds',
         'C18_NoSilentRelax / C18_StrictRaisesFirst are model-checked; every behaviour on a model with non-continuous variables (15 methods x strict x outcomes) is replayed and validated (strict raises before any solver entry; one warning per gate passage naming exactly the non-continuous variables); integer / binary declared through 6 routes x 12 methods relax to the continuous twin; every view enumerated by TLC over binary / integer containers carries [0, 1] / declared bounds.',
         HIST_NOTE, 'DESIGN.md 3 (C18)')
register('C14', 'TLA+ GlobalCaches spec (two LRUs, capacity 2, name-equal leaves, parameter bypass) model-checked; every cache-operation history replayed on two same-named models with real-capacity fillers; fresh-process reference',
         'C14_NoCrossTalk is model-checked exhaustively on GlobalCaches.tla (the as-coded instance without the parameter bypass violates it: selftest); every history of the model is replayed on two real models sharing the names p and x with different values / bounds / structure, with fillers overflowing the real capacities (1024 / 4096); each callable must read its own model\'s parameter and the final observations on M must equal those computed in a fresh interpreter process.',
         'Trusted: TLC; the abstraction of GlobalCaches.tla (which artefacts depend on object state); the fresh-process reference run; SciPy for the two reference solves.', 'DESIGN.md 3 (C14)')
register('C19', 'TLA+ Ext spec (IEEE-style extended arithmetic) classifies every derivative entry of TLC-enumerated programs at points on singular sets; derivative callables on all paths checked against the classes',
         'For every enumerated expression TLC evaluates value, gradient and Hessian entries with the extended arithmetic of Ext.tla (rationals, +-inf, NaN, opaque finite values with sign) at every point placing 0 / 1 / -1 on one or all coordinates; compile_gradient, compile_jacobian, CompiledExpression.gradient and compile_hessian must be finite, agree with each other, keep regular entries unchanged and, for the atomic cases the property names, return 0 / +-1e16 with the derived sign.',
         API_NOTE + ' Zeros are unsigned in Ext.tla; entries whose class is an infinity of unknown sign are only required to have magnitude 1e16.', 'DESIGN.md 3 (C19)')
register('C15', 'TLA+ Api spec: chains over every base-term kind in every association enumerated by TLC, replayed with the four switch thresholds lowered (iterative algorithms) against the denotation; real-depth accumulations against closed forms',
         'TLC enumerates every pair of base-term kinds x operator and every 3-term chain in every association; with the thresholds of compiler, autodiff, expressions and analysis lowered from outside these small trees take the iterative algorithms, whose variables / degree / gradient / compiled value / compiled gradient are compared with the exact denotation (to which C01-C04 bind the recursive algorithms); accumulations of 399-900 and 1000-20000 terms with default thresholds are checked against closed forms and the vectorised build.',
         API_NOTE + ' The real-depth part is a differential test against closed forms (the spec contributes the switch rule and the denotation, not an enumeration).', 'DESIGN.md 3 (C15)')
register('C08', 'TLA+ Analysis spec: LP(P) assembled by TLC from exact normal forms and solved with the same linprog method as the reference; optyx solve of TLC-enumerated linear problems, both orientations, repeated',
         'The linear problems enumerated by TLC (many spellings, three senses, reflected comparisons, bounded / unbounded / infeasible instances) are solved through optyx with auto and an explicit HiGHS method, twice each, minimise and maximise, and compared in status and optimal objective with the matrix form TLC assembled from the exact normal form, solved by the same SciPy linprog method (identical arrays when extraction is right, so no solver noise).',
         API_NOTE + ' HiGHS (SciPy linprog) is the trusted LP solver on both sides.', 'DESIGN.md 3 (C08)')
register('C09', 'TLA+ Wiring spec: every problem structure enumerated by TLC with its wiring contract (method, jac/hess/bounds, constraint type, exact x0); arguments captured at the minimize seam and outcome vs direct SciPy on hand-written callables',
         'TLC enumerates every structure and computes the wiring contract; numbers are instantiated around a manufactured KKT point; the arguments optyx hands to scipy.optimize.minimize are captured and compared with the contract and with hand-written NumPy callables (fun = f in both orientations, jac, hess, constraint fun / jac, bounds, starting point); the same SciPy method is then called directly from the same starting point and, when it converges to the known optimum, optyx must report OPTIMAL at least as close.',
         'Trusted: TLC; the transcription of the starting-point rule and the method capability sets in Wiring.tla; NumPy / SciPy for the hand-written reference; the manufactured KKT construction. Which method auto selects is not part of the contract beyond "a method that supports the problem".', 'DESIGN.md 3 (C09)')

ALL = ['C%02d' % i for i in range(1, 21)]


def build():
    checks = []
    for pid in ALL:
        if pid not in CHECKS:
            continue
        c = CHECKS[pid]
        d = {
            'property_id': pid,
            'quick_cmd': '%s check %s --tier quick' % (PY, pid),
            'evidence_file': 'evidence/%s.json' % pid,
            'replay_cmd_template': '%s check %s --replay {path}' % (PY, pid),
            'engine': 'tlc+replay',
            'level_claimed': {'category': 'model_checking', 'text': c['text'] + ADDENDA.get(pid, ''), 'design_ref': c['design_ref']},
            'level_note': c['note'],
            'technique': c['technique'],
        }
        if c['thorough']:
            d['thorough_cmd'] = '%s check %s --tier thorough' % (PY, pid)
        checks.append(d)
    na = [{'property_id': p, 'reason': NA.get(p, 'check not built yet in this session (specification layer in progress); see DESIGN.md section 9 for the order of work')}
          for p in ALL if p not in CHECKS]
    m = {
        'version': 1,
        'setup_cmd': '/venv/bin/pip install -q --no-index --find-links /opt/veriftools/wheels --target /verif/.vendor mpmath',
        'hooks': {
            'guard': 'OPTYX_VERIF',
            'enable': 'no in-repo hooks: the harness wraps the module seams optyx.solvers.scipy_solver.minimize and scipy.optimize.linprog at run time, in its own process (PYTHONPATH=/repo/src)',
            'baseline_off_cmd': 'cd /repo && /venv/bin/python -m pytest -ra -q -p no:cacheprovider --timeout=900 --continue-on-collection-errors',
            'source_commits': [],
            'add_only': True,
        },
        'engines': [{'name': 'tlc+replay', 'path': 'check', 'serves_properties': sorted(CHECKS),
                     'kind_free_text': 'explicit TLA+ specification (spec/*.tla) model-checked with TLC; TLC-enumerated behaviours replayed into optyx and recorded traces validated against trace specifications'}],
        'checks': checks,
        'not_applicable': na,
        'notes': 'All checks: /venv/bin/python check <id> [--tier quick|thorough] [--repo PATH]; exit 0 held, 1 VIOLATION, 2 machinery failure. known_findings.json lists recorded/fixed defects.',
    }
    json.dump(m, open(os.path.join(ROOT, 'MANIFEST.json'), 'w'), indent=1)
    return m


if __name__ == '__main__':
    m = build()
    print('checks:', [c['property_id'] for c in m['checks']])
