"""Shared driver for the history-layer properties (C13, C12, C06, C07, C18, C20): model-check Solve.tla,
replay histories of the model into real Problems under the recorder, validate the recorded traces."""
import json, multiprocessing as mp, os, random, traceback
from . import tlc, common, histgraph, tracecheck


def model_check(report, cfg='MC_Solve', overrides=None, timeout=900):
    wd = tlc.workdir()
    try:
        r = tlc.run('MC_Solve', cfg=cfg, wd=wd, overrides=overrides, timeout=timeout)
        report.add_tlc(r)
        return r
    finally:
        tlc.cleanup(wd)


def history_graph(report):
    wd = tlc.workdir()
    try:
        r = tlc.run('MC_Solve', cfg='MC_Hist', wd=wd, dumpdot=True)
        report.add_tlc(r)
        return histgraph.Graph(r.dump)
    finally:
        tlc.cleanup(wd)


_FN = None


def _run_chunk(args):
    idx, items = args
    try:
        return _FN(idx, items)
    except Exception:
        return {'error': traceback.format_exc()}


def parallel(fn, items, workers=16, chunk=40):
    """fn(chunk index, list of items) -> dict part; executed in forked workers."""
    global _FN
    _FN = fn
    chunks = [(i, items[i:i + chunk]) for i in range(0, len(items), chunk)]
    with mp.get_context('fork').Pool(workers) as pool:
        for part in pool.imap_unordered(_run_chunk, chunks):
            if 'error' in part:
                raise common.MachineryError(part['error'])
            yield part
