"""Enumerate the complete solve behaviours of MC_Sched with TLC and replay them (C06, C18, C20)."""
import json, os
from . import tlc, tlaparse, common, recorder, scenario, histrun
from .common import pviolation, bump


def schedules(report, overrides=None):
    wd = tlc.workdir()
    try:
        r = tlc.run('MC_Sched', wd=wd, dump=True, overrides=overrides)
        report.add_tlc(r)
        seen = {}
        for txt in tlaparse.iter_states(r.dump):
            st = tlaparse.parse_state(txt)
            if st['pc'] != 'done':
                continue
            key = json.dumps([st['obj']['id'], [c['id'] for c in st['cons']], st['sched']], sort_keys=True)
            key = key + st['sense']
            d = seen.setdefault(key, {'obj': st['obj']['id'], 'cons': [c['id'] for c in st['cons']], 'sched': st['sched'], 'outs': [], 'sense': st['sense']})
            d['outs'].append(st['out'])
        return list(seen.values())
    finally:
        tlc.cleanup(wd)


def sched_str(b):
    ev = []
    for e in b['sched']:
        if e['e'] == 'begin':
            ev.append('solve(%s%s)' % (e['m'], ',strict' if e['strict'] else ''))
        elif e['e'] == 'ret':
            r = e['r']
            ev.append('solver->%s' % ('lp%d/%s' % (r['lp'], r['x']) if r['lp'] != 9 else '%s/%s/%s' % ('ok' if r['success'] else 'fail', r['msg'], r['x'])))
        else:
            ev.append('solver raises %s' % e['exc'])
    return '%s obj%d cons%s: %s' % (b.get('sense', 'minimize'), b['obj'], b['cons'], ' ; '.join(ev))


def site_of(b):
    m = b['sched'][0]['m']
    route = 'lp' if m in recorder.LP_METHODS or (m == 'auto' and b['obj'] in (1, 5)) else 'nlp'
    return 'Solve(%s)' % (m if route == 'nlp' else m + '/lp')


def replay_chunk_factory(want_sites, judge, kinds=('scalar', 'vector')):
    def fn(idx, items):
        import scipy.optimize
        import optyx.solvers.scipy_solver as ss
        part = {'violations': {}, 'counts': {}, 'evaluations': 0, 'traces_validated_against_impl': 0, 'nontrivial': set(),
                'samples': [], 'extra': {}, 'batch': [], 'labels': []}
        real_min, real_lp = ss.minimize, scipy.optimize.linprog
        rec = recorder.Recorder()
        rec.install()
        try:
            for b in items:
                has_fault = any(e['e'] == 'raise' for e in b['sched'])
                sites = want_sites if has_fault else ('entry',)
                for site in sites:
                    for kind in kinds:
                        n0 = len(rec.order)
                        res = scenario.run_schedule(rec, real_min, real_lp, kind, b['obj'], b['cons'], b['sched'], site, sense=b.get('sense', 'minimize'))
                        part['evaluations'] += 1
                        part['traces_validated_against_impl'] += 1
                        text = sched_str(b) + (' @%s' % site if has_fault else '')
                        part['nontrivial'].add(text)
                        judge(part, b, res, text, site, kind)
                        for k in rec.order[n0:]:
                            part['labels'].append(text)
                if len(part['samples']) < 1:
                    part['samples'].append({'behaviour': sched_str(b), 'spec_outcomes': b['outs'][:3]})
        finally:
            rec.uninstall()
        part['batch'] = rec.batch()
        return part
    return fn
