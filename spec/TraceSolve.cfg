SPECIFICATION TSpec
CONSTANTS
  ObjRecs = {}
  ConRecs = {}
  MaxCons = 0
  Methods = {}
  OptSets = {}
  FaultExcs = {}
  OnlySuccess = FALSE
  EditInvalidates = TRUE
  BoundsLive = TRUE
  ParamsLive = TRUE
  GateBeforeSolver = TRUE
  RestoreInFinally = TRUE
  FeasCheckAlways = TRUE
  FaultKeepsCaches = TRUE
INVARIANT MarkDone
INVARIANT C13_CachesCoherent
INVARIANT C13_SolveFresh
INVARIANT C12_NoFrozenParam
INVARIANT C18_NoSilentRelax
INVARIANT C18_StrictRaisesFirst
INVARIANT C06_OptimalFeasible
INVARIANT C20_GlobalsRestored
INVARIANT C20_FaultOutcome
POSTCONDITION Accepted
CHECK_DEADLOCK FALSE
