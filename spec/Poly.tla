------------------------------- MODULE Poly -------------------------------
(* Sparse multivariate polynomials over Rat and rational functions P/Q.
   A monomial is a function from a finite set of variable names to positive exponents; a
   polynomial is a function from a finite set of monomials to nonzero rationals. *)
EXTENDS Rat, FiniteSets, FiniteSetsExt, Functions, TLC

MOne        == <<>>
MExp(m, v)  == IF v \in DOMAIN m THEN m[v] ELSE 0
MMul(a, b)  == [v \in DOMAIN a \cup DOMAIN b |-> MExp(a, v) + MExp(b, v)]
MDeg(m)     == FoldFunction(LAMBDA x, acc : x + acc, 0, m)
MVar(v)     == (v :> 1)

PZero       == <<>>
PConst(q)   == IF RIsZero(q) THEN PZero ELSE (MOne :> q)
PVar(v)     == (MVar(v) :> ROne)
PCoef(p, m) == IF m \in DOMAIN p THEN p[m] ELSE RZero
PClean(p)   == [m \in {mm \in DOMAIN p : ~RIsZero(p[mm])} |-> p[m]]
PAdd(p, q)  == PClean([m \in DOMAIN p \cup DOMAIN q |-> RAdd(PCoef(p, m), PCoef(q, m))])
PNeg(p)     == [m \in DOMAIN p |-> RNeg(p[m])]
PSub(p, q)  == PAdd(p, PNeg(q))
PScale(c, p) == IF RIsZero(c) THEN PZero ELSE [m \in DOMAIN p |-> RMul(c, p[m])]
PMul(p, q)  ==
    LET pairs == (DOMAIN p) \X (DOMAIN q)
        prods == {MMul(ab[1], ab[2]) : ab \in pairs}
    IN  PClean([m \in prods |->
            FoldSet(LAMBDA ab, acc : RAdd(acc, RMul(p[ab[1]], q[ab[2]])), RZero,
                    {ab \in pairs : MMul(ab[1], ab[2]) = m})])
RECURSIVE PPow(_, _)
PPow(p, k)  == IF k = 0 THEN PConst(ROne) ELSE PMul(p, PPow(p, k - 1))
PIsZero(p)  == DOMAIN p = {}
PIsConst(p) == DOMAIN p \subseteq {MOne}
PConstVal(p) == PCoef(p, MOne)
PHasBad(p)  == \E m \in DOMAIN p : RIsBad(p[m])
PDeg(p)     == IF PIsZero(p) THEN 0 ELSE Max({MDeg(m) : m \in DOMAIN p})
PVars(p)    == UNION {DOMAIN m : m \in DOMAIN p}
MDrop(m, v) == [w \in (IF m[v] = 1 THEN DOMAIN m \ {v} ELSE DOMAIN m) |-> IF w = v THEN m[v] - 1 ELSE m[w]]
PDeriv(p, v) ==
    LET ms == {m \in DOMAIN p : v \in DOMAIN m}
    IN  PClean([mm \in {MDrop(m, v) : m \in ms} |->
            FoldSet(LAMBDA m, acc : RAdd(acc, RMul(R(m[v]), p[m])), RZero,
                    {m \in ms : MDrop(m, v) = mm})])
MEval(m, env) == FoldSet(LAMBDA v, acc : RMul(acc, RPowNat(env[v], m[v])), ROne, DOMAIN m)
PEval(p, env) == FoldSet(LAMBDA m, acc : RAdd(acc, RMul(p[m], MEval(m, env))), RZero, DOMAIN p)
\* coefficient of the degree-1 monomial in v, and the constant term
PLin(p, v)  == PCoef(p, MVar(v))

(* Rational functions num/den (den # 0 as a polynomial), compared by cross-multiplication. *)
QF(n, d)      == [n |-> n, d |-> d]
QFromP(p)     == QF(p, PConst(ROne))
QAdd(a, b)    == IF a.d = b.d THEN QF(PAdd(a.n, b.n), a.d)
                 ELSE QF(PAdd(PMul(a.n, b.d), PMul(b.n, a.d)), PMul(a.d, b.d))
QNeg(a)       == QF(PNeg(a.n), a.d)
QSub(a, b)    == QAdd(a, QNeg(b))
QMul(a, b)    == QF(PMul(a.n, b.n), PMul(a.d, b.d))
QInv(a)       == QF(a.d, a.n)
QDiv(a, b)    == QMul(a, QInv(b))
QEq(a, b)     == PMul(a.n, b.d) = PMul(b.n, a.d)
QIsZero(a)    == PIsZero(a.n)
QHasBad(a)    == PHasBad(a.n) \/ PHasBad(a.d)
\* equality of rational functions where the bounded arithmetic sufficed to decide it: a coefficient beyond the
\* 32-bit guard (RBad) in either operand or in a cross product makes the comparison vacuous, never false
QEqSafe(a, b) == LET l == PMul(a.n, b.d)  r == PMul(b.n, a.d) IN
                 QHasBad(a) \/ QHasBad(b) \/ PHasBad(l) \/ PHasBad(r) \/ l = r
QDeriv(a, v)  == QF(PSub(PMul(PDeriv(a.n, v), a.d), PMul(a.n, PDeriv(a.d, v))), PMul(a.d, a.d))
RECURSIVE QPowNat(_, _)
QPowNat(a, k) == IF k = 0 THEN QFromP(PConst(ROne)) ELSE QMul(a, QPowNat(a, k - 1))
\* a rational function with constant denominator is a polynomial
QIsPoly(a)    == PIsConst(a.d) /\ ~PIsZero(a.d)
QToPoly(a)    == PScale(RInv(PConstVal(a.d)), a.n)
=============================================================================
