------------------------------- MODULE Terms -------------------------------
(* Scalar terms: the denotation of every scalar optyx expression.
   Const(q) | Var(name) | Par(pid) | Bin(op, l, r) | Un(f, a).
   Names are tuples: <<"s">> scalar, <<"x", i>> vector element, <<"A", i, j>> matrix element. *)
EXTENDS Poly, Sequences

Const(q)     == [k |-> "const", q |-> q]
Var(n)       == [k |-> "var", n |-> n]
Par(p)       == [k |-> "par", p |-> p]
Bin(o, l, r) == [k |-> "bin", op |-> o, l |-> l, r |-> r]
Un(f, a)     == [k |-> "un", f |-> f, a |-> a]
C0 == Const(RZero)
C1 == Const(ROne)
IsConst(t) == t.k = "const"

BinOps == {"+", "-", "*", "/", "**"}
UnFns  == {"neg", "abs", "sin", "cos", "tan", "exp", "log", "log2", "log10", "sqrt", "tanh", "sinh",
           "cosh", "asin", "acos", "atan", "asinh", "acosh", "atanh"}

RECURSIVE TVars(_)
TVars(t) == CASE t.k = "var" -> {t.n}
              [] t.k \in {"const", "par"} -> {}
              [] t.k = "bin" -> TVars(t.l) \cup TVars(t.r)
              [] t.k = "un" -> TVars(t.a)
RECURSIVE TPars(_)
TPars(t) == CASE t.k = "par" -> {t.p}
              [] t.k \in {"const", "var"} -> {}
              [] t.k = "bin" -> TPars(t.l) \cup TPars(t.r)
              [] t.k = "un" -> TPars(t.a)
RECURSIVE TSize(_)
TSize(t) == CASE t.k \in {"var", "const", "par"} -> 1
              [] t.k = "bin" -> 1 + TSize(t.l) + TSize(t.r)
              [] t.k = "un" -> 1 + TSize(t.a)
RECURSIVE TDepth(_)
TDepth(t) == CASE t.k \in {"var", "const", "par"} -> 0
               [] t.k = "bin" -> 1 + (IF TDepth(t.l) > TDepth(t.r) THEN TDepth(t.l) ELSE TDepth(t.r))
               [] t.k = "un" -> 1 + TDepth(t.a)
RECURSIVE TFns(_)
TFns(t) == CASE t.k \in {"var", "const", "par"} -> {}
             [] t.k = "bin" -> TFns(t.l) \cup TFns(t.r)
             [] t.k = "un" -> {t.f} \cup TFns(t.a)

(* Normal form as a rational function of the variables; parameters are atoms <<"par", id>>.
   Result [ok, q, why]: ok = FALSE when a transcendental function, a non-integer or non-constant
   exponent, or a division by the zero function occurs ("nonrat"), or when guarded arithmetic
   overflowed ("toobig"). *)
QBad(w) == [ok |-> FALSE, q |-> QFromP(PZero), why |-> w]
QOk(q)  == IF QHasBad(q) THEN QBad("toobig") ELSE [ok |-> TRUE, q |-> q, why |-> "ok"]
MaxPow  == 6
ParAtom(p) == <<"par", p>>
RECURSIVE QNF(_)
QNF(t) ==
  CASE t.k = "const" -> QOk(QFromP(PConst(t.q)))
    [] t.k = "var"   -> QOk(QFromP(PVar(t.n)))
    [] t.k = "par"   -> QOk(QFromP(PVar(ParAtom(t.p))))
    [] t.k = "un"    -> IF t.f = "neg" THEN (LET a == QNF(t.a) IN IF a.ok THEN QOk(QNeg(a.q)) ELSE a) ELSE QBad("nonrat")
    [] t.k = "bin"   ->
         LET a == QNF(t.l)  b == QNF(t.r) IN
         IF ~a.ok THEN a ELSE IF ~b.ok THEN b ELSE
         CASE t.op = "+" -> QOk(QAdd(a.q, b.q))
           [] t.op = "-" -> QOk(QSub(a.q, b.q))
           [] t.op = "*" -> QOk(QMul(a.q, b.q))
           [] t.op = "/" -> IF QIsZero(b.q) THEN QBad("nonrat") ELSE QOk(QDiv(a.q, b.q))
           [] t.op = "**" ->
                IF PIsConst(b.q.n) /\ PIsConst(b.q.d) /\ ~PIsZero(b.q.d)
                THEN LET e == RDiv(PConstVal(b.q.n), PConstVal(b.q.d)) IN
                     IF RIsBad(e) THEN QBad("toobig")
                     ELSE IF ~RIsInt(e) THEN QBad("nonrat")
                     ELSE IF Abs(e[1]) > MaxPow THEN QBad("toobig")
                     ELSE IF e[1] >= 0 THEN QOk(QPowNat(a.q, e[1]))
                     ELSE IF QIsZero(a.q) THEN QBad("nonrat") ELSE QOk(QInv(QPowNat(a.q, -e[1])))
                ELSE QBad("nonrat")
=============================================================================
