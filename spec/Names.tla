------------------------------- MODULE Names -------------------------------
(* Variable names as optyx renders them, and the natural (numeric-aware) order of names.

   A name is a tuple <<base>>, <<base, i>> or <<base, i, j>>; it is rendered "base", "base[i]",
   "base[i,j]".  Strings cannot be compared in TLC, so a rendered name is a sequence of character
   codes; `Code` maps each base string to its codes (the harness asserts that table against
   Python).  The natural-sort key mirrors  re.split(r"(\d+)", name)  with the digit runs converted
   to integers: parts alternate text, number, text, ... starting with a (possibly empty) text. *)
EXTENDS Integers, Sequences, SequencesExt, TLC

CONSTANT Code          \* [base string |-> Seq(char code)]

LBr == 91  RBr == 93  Comma == 44
RECURSIVE Digits(_)
Digits(n) == IF n < 10 THEN <<48 + n>> ELSE Digits(n \div 10) \o <<48 + (n % 10)>>
Render(nm) ==
    IF Len(nm) = 1 THEN Code[nm[1]]
    ELSE IF Len(nm) = 2 THEN Code[nm[1]] \o <<LBr>> \o Digits(nm[2]) \o <<RBr>>
    ELSE Code[nm[1]] \o <<LBr>> \o Digits(nm[2]) \o <<Comma>> \o Digits(nm[3]) \o <<RBr>>

IsDigit(c) == c >= 48 /\ c <= 57
\* parts: text parts are <<0, codes>>, number parts <<1, value>>
RECURSIVE SplitParts(_, _, _, _)
\* s: remaining codes; mode 0 = reading text, 1 = reading number; acc: current text codes or number value
SplitParts(s, mode, acc, out) ==
    IF s = <<>> THEN
        (IF mode = 0 THEN Append(out, <<0, acc>>) ELSE Append(Append(out, <<1, acc>>), <<0, <<>>>>))
    ELSE LET c == Head(s) IN
         IF mode = 0 THEN
             (IF IsDigit(c) THEN SplitParts(Tail(s), 1, c - 48, Append(out, <<0, acc>>))
              ELSE SplitParts(Tail(s), 0, Append(acc, c), out))
         ELSE
             (IF IsDigit(c) THEN SplitParts(Tail(s), 1, acc * 10 + (c - 48), out)
              ELSE SplitParts(Tail(s), 0, <<c>>, Append(out, <<1, acc>>)))
NatKey(nm) == SplitParts(Render(nm), 0, <<>>, <<>>)

RECURSIVE LexLess(_, _)
LexLess(a, b) ==       \* strict lexicographic order on code sequences (Python str order)
    IF b = <<>> THEN FALSE
    ELSE IF a = <<>> THEN TRUE
    ELSE IF Head(a) # Head(b) THEN Head(a) < Head(b)
    ELSE LexLess(Tail(a), Tail(b))
PartLess(p, q) == IF p[1] = 0 THEN LexLess(p[2], q[2]) ELSE p[2] < q[2]
RECURSIVE KeyLess(_, _)
KeyLess(a, b) ==       \* Python tuple order; same positions hold the same part type by construction
    IF b = <<>> THEN FALSE
    ELSE IF a = <<>> THEN TRUE
    ELSE IF Head(a) # Head(b) THEN PartLess(Head(a), Head(b))
    ELSE KeyLess(Tail(a), Tail(b))
NatLess(n1, n2) == KeyLess(NatKey(n1), NatKey(n2))
NatSorted(S) == SortSeq(SetToSeq(S), NatLess)
=============================================================================
