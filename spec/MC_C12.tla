------------------------------- MODULE MC_C12 -------------------------------
EXTENDS ApiGen
Q(n, d) == Norm(n, d)
B(lb, ub) == Lit("bounds", <<lb, ub>>, <<2>>)
(* C12: parameters.  A float-initialised Parameter, a second Parameter of the same name initialised from a NumPy integer, and a
   VectorParameter initialised from an integer list (its elements are reached by index); every artefact built
   from them must follow later updates, whole-vector (VectorParameter.set) or per element. *)
MC_BaseCalls == <<
    Call("MkVar", 0, 0, "continuous", B(NoneQ, NoneQ), 0, 0, 0, "s"),
    Call("MkVec", 0, 0, "continuous", B(NoneQ, NoneQ), 2, 0, 0, "x"),
    Call("MkPar", 0, 0, "", LitS("float", Q(3, 2)), 1, 0, 0, "p"),
    Call("MkPar", 0, 0, "", LitS("npi64", Q(2, 1)), 2, 0, 0, "p"),      \* a second Parameter object with the SAME name (parameters hash and compare by name)
    Call("MkVPar", 0, 0, "", Lit("arri", <<Q(3,1), Q(1,1)>>, <<2>>), 3, 2, 0, "v"),
    Call("Index", 5, 0, "", NoLit, 0, 0, 0, ""),
    Call("Index", 5, 0, "", NoLit, -1, 0, 0, ""),
    Call("MkVPar", 0, 0, "", LitS("int", Q(10, 1)), 5, 2, 0, "w"),
    Call("Index", 8, 0, "", NoLit, 1, 0, 0, "")
  >>
MC_AllNames == {<<"s">>, <<"x", 0>>, <<"x", 1>>}
MC_En == {"SBin", "SBinLit", "SRBinLit", "SNeg", "Fn", "Index", "VBinLit", "Sum", "Dot", "LinComb"}
MC_ScalarLits == {LitS("int", Q(2, 1)), LitS("float", Q(1, 2))}
MC_ArrayLits == {Lit("arr", <<Q(2,1), Q(5,1)>>, <<2>>)}
MC_Slices == {}
MC_Indices == {0, -1}
MC_Fns == {"sin", "sqrt", "exp"}
MC_FnsSmall == {"sin", "sqrt", "abs"}
MC_ScalarLitsSmall == {LitS("int", Q(2, 1)), LitS("float", Q(1, 2))}
MC_SOps == {"+", "-", "*", "/", "**"}
MC_VOps == {"+", "-", "*", "/", "**"}
MC_Senses == {}
MC_ObjCands == {}
MC_Stages == <<>>
MC_FinalEn == {}
MC_SingValues == {}
MC_Want == {"D", "H", "V"}
MC_WantV == {"V"}
MC_WantD == {"D"}
MC_WantDV == {"D", "V", "V3"}
MC_WantH == {"D", "H", "V"}
MC_NoPR(o) == <<>>
ASSUME PrintT(<<"BASE", BaseCalls, BaseHeap, AllNames>>)
=============================================================================
