------------------------------- MODULE MC_C15 -------------------------------
(* C15: results do not depend on depth or association.  Base terms of every kind (the 18 elementary
   functions, every vector / matrix reduction node, a parameter); chains are the programs of SBin calls
   over them - all associations arise as programs; the harness lowers the four switch thresholds so
   that these small chains already take the iterative algorithms. *)
EXTENDS ApiGen
Q(n, d) == Norm(n, d)
B(lb, ub) == Lit("bounds", <<lb, ub>>, <<2>>)
MC_BaseCalls == <<
    Call("MkVar", 0, 0, "continuous", B(NoneQ, NoneQ), 0, 0, 0, "s"),
    Call("MkVec", 0, 0, "continuous", B(NoneQ, NoneQ), 2, 0, 0, "x"),
    Call("MkMat", 0, 0, "continuous", B(NoneQ, NoneQ), 2, 2, 0, "A"),
    Call("MkPar", 0, 0, "", LitS("float", Q(3, 2)), 1, 0, 0, "p"),
    Call("Fn", 1, 0, "abs", NoLit, 0, 0, 0, ""),
    Call("Fn", 1, 0, "sin", NoLit, 0, 0, 0, ""),
    Call("Fn", 1, 0, "cos", NoLit, 0, 0, 0, ""),
    Call("Fn", 1, 0, "tan", NoLit, 0, 0, 0, ""),
    Call("Fn", 1, 0, "exp", NoLit, 0, 0, 0, ""),
    Call("Fn", 1, 0, "log", NoLit, 0, 0, 0, ""),
    Call("Fn", 1, 0, "log2", NoLit, 0, 0, 0, ""),
    Call("Fn", 1, 0, "log10", NoLit, 0, 0, 0, ""),
    Call("Fn", 1, 0, "sqrt", NoLit, 0, 0, 0, ""),
    Call("Fn", 1, 0, "tanh", NoLit, 0, 0, 0, ""),
    Call("Fn", 1, 0, "sinh", NoLit, 0, 0, 0, ""),
    Call("Fn", 1, 0, "cosh", NoLit, 0, 0, 0, ""),
    Call("Fn", 1, 0, "asin", NoLit, 0, 0, 0, ""),
    Call("Fn", 1, 0, "acos", NoLit, 0, 0, 0, ""),
    Call("Fn", 1, 0, "atan", NoLit, 0, 0, 0, ""),
    Call("Fn", 1, 0, "asinh", NoLit, 0, 0, 0, ""),
    Call("Fn", 1, 0, "acosh", NoLit, 0, 0, 0, ""),
    Call("Fn", 1, 0, "atanh", NoLit, 0, 0, 0, ""),
    Call("Sum", 2, 0, "", NoLit, 0, 0, 0, ""),
    Call("Dot", 2, 2, "", NoLit, 0, 0, 0, ""),
    Call("LinComb", 2, 0, "", Lit("arr", <<Q(2,1), Q(-1,1)>>, <<2>>), 0, 0, 0, ""),
    Call("Norm", 2, 0, "", NoLit, 2, 0, 0, ""),
    Call("Norm", 2, 0, "", NoLit, 1, 0, 0, ""),
    Call("QuadForm", 2, 0, "", Lit("arr", <<Q(2,1), Q(1,1), Q(0,1), Q(3,1)>>, <<2, 2>>), 0, 0, 0, ""),
    Call("Sum", 3, 0, "", NoLit, 0, 0, 0, ""),
    Call("Frobenius", 3, 0, "", NoLit, 0, 0, 0, ""),
    Call("Trace", 3, 0, "", NoLit, 0, 0, 0, ""),
    Call("VBinLit", 2, 0, "**", LitS("int", Q(2, 1)), 0, 0, 0, ""),
    Call("Fn", 2, 0, "exp", NoLit, 0, 0, 0, ""),
    Call("Sum", 32, 0, "", NoLit, 0, 0, 0, ""),
    Call("Sum", 33, 0, "", NoLit, 0, 0, 0, "")
  >>
MC_AllNames == {<<"s">>, <<"x", 0>>, <<"x", 1>>} \cup {<<"A", i, j>> : i \in 0..1, j \in 0..1}
MC_En == {"SBin", "SBinLit", "SNeg"}
MC_ObjCands == {}
MC_Stages == <<>>
MC_FinalEn == {}
MC_ScalarLits == {LitS("int", Q(2, 1))}
MC_ArrayLits == {}
MC_Slices == {}
MC_Indices == {}
MC_Fns == {}
MC_SOps == {"+", "-", "*", "/"}
MC_VOps == {}
MC_Senses == {}
MC_SingValues == {}
MC_Want == {"D", "deg"}
MC_NoPR(o) == <<>>
ASSUME PrintT(<<"BASE", BaseCalls, BaseHeap, AllNames, SliceTab>>)
=============================================================================
