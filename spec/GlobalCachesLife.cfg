SPECIFICATION Spec
CONSTANTS
  LeafEq = "name"
  ParamBypass = TRUE
  Cap = 2
  MaxOps = 6
  DegreePins = TRUE
  MemoChecksContent = TRUE
  Acts = {"life"}
INVARIANT C14_NoCrossTalk
INVARIANT C14_DegreeOwn
INVARIANT C14_BufferCurrent
INVARIANT C14_Bounded
CHECK_DEADLOCK FALSE
