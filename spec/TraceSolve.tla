------------------------------- MODULE TraceSolve -------------------------------
(* Trace validation: executions recorded from the real optyx (harness/recorder.py) are checked,
   event by event, against the actions of Solve.tla.  A batch is a JSON array of traces; each trace
   starts one initial state; unlogged steps (routing, cache fills, hook swap, except / finally, the
   SLSQP retry) are inferred by TLC as silent steps; every invariant of Solve.tla is evaluated in
   every state.  Run with -workers 1 (TLCSet registers). *)
EXTENDS Solve, Json, IOUtils, TLCExt

Traces == JsonDeserialize(IOEnv.TRACE_FILE)
N == Len(Traces)
ASSUME TLCSet(1, {}) /\ TLCSet(2, [i \in 1..N |-> 0])

VARIABLES tid, l
tvars == <<vars, tid, l>>
Tr == Traces[tid]
Ev == Tr[l]
IsEvent(e) == l <= Len(Tr) /\ Ev.ev = e
Consume == /\ l' = l + 1 /\ tid' = tid
           /\ TLCSet(2, [TLCGet(2) EXCEPT ![tid] = IF @ < l THEN l ELSE @])
Silent(A) == A /\ UNCHANGED <<tid, l>>

TInit == Init /\ tid \in 1..N /\ l = 1

TMinimize  == IsEvent("Minimize") /\ SetObjective(Ev.obj, "minimize") /\ Consume
TMaximize  == IsEvent("Maximize") /\ SetObjective(Ev.obj, "maximize") /\ Consume
TSubjectTo == IsEvent("SubjectTo") /\ SubjectTo(Ev.cons) /\ Consume
TSetBound  == IsEvent("SetBound") /\ SetBound /\ Consume
TSetParam  == IsEvent("SetParam") /\ SetParam /\ Consume
TReadVars  == IsEvent("ReadVars") /\ ReadVars /\ Ev.namesOK /\ Consume
TSolveCall == IsEvent("SolveCall") /\ SolveBeginOpts(Ev.m, Ev.strict, Ev.opts) /\ Consume
\* the integrality warning: exactly one per gate passage, naming exactly the non-continuous variables
TWarn      == IsEvent("Warn") /\ Gate /\ call'.warned = call.warned + 1 /\ Ev.namesOK /\ Consume
\* the solver seam is entered: everything observable about what it is handed must be what the spec says
TSolverEnter ==
    /\ IsEvent("SolverEnter") /\ pc = "solver" /\ call.entries = Ev.k
    /\ Ev.fn = (IF call.route = "lp" THEN "linprog" ELSE "minimize")
    /\ Ev.method = call.method
    /\ (call.route = "nlp" =>
          /\ Ev.has_hess = HandsHessian
          /\ Ev.optsOK                  \* x0 / tol / maxiter reach the solver exactly as the caller gave them (or not at all)
          /\ Ev.has_jac = (call.method \notin DerivFree)
          /\ Ev.hook_swapped = (hook = "handler")
          /\ Ev.n_cons = Len(cons))
    /\ (call.rebuilt => Ev.rebuilt)      \* an artefact the spec says is invalid must have been rebuilt
    /\ Ev.bounds_current              \* the bounds handed over are the variables' current bounds
    /\ Ev.params_current              \* the callables see the parameters' current values
    /\ UNCHANGED vars /\ Consume
TSolverExit ==
    /\ IsEvent("SolverExit")
    /\ IF Ev.raised = "" THEN SolverReturns([success |-> Ev.success, msg |-> Ev.msg, x |-> Ev.x, lp |-> Ev.lp])
       ELSE SolverRaises(Ev.raised)
    /\ Consume
TReturn ==
    /\ IsEvent("Return") /\ pc = "done" /\ out.kind = "solution" /\ out.status = Ev.status
    /\ (out.x = "none" \/ out.x = Ev.x)
    /\ Ev.hook_restored /\ Ev.reclimit_restored /\ Ev.objOK /\ Ev.keysOK
    /\ Return /\ Consume
TRaise ==
    /\ IsEvent("Raise") /\ pc = "done" /\ out.kind = "raised" /\ out.exc = Ev.exc
    /\ Ev.hook_restored /\ Ev.reclimit_restored
    /\ Return /\ Consume
\* an exception that is not preceded by a solver entry: a build stage failed
TStageRaise == IsEvent("Raise") /\ call.entries = 0 /\ Silent(StageRaises(Ev.exc))
\* a gate passage without a warning is silent only when there is nothing to warn about
GateSilent == Gate /\ call'.warned = call.warned
TSilent == \/ Silent(Route) \/ Silent(Vars) \/ Silent(GateSilent) \/ Silent(Fill) \/ Silent(LazyHess) \/ Silent(HookSwap)
           \/ Silent(Except) \/ Silent(Finally) \/ Silent(Post) \/ Silent(LPReturn) \/ TStageRaise
TNext == TMinimize \/ TMaximize \/ TSubjectTo \/ TSetBound \/ TSetParam \/ TReadVars \/ TSolveCall \/ TWarn
         \/ TSolverEnter \/ TSolverExit \/ TReturn \/ TRaise \/ TSilent
TSpec == TInit /\ [][TNext]_tvars

Done == l = Len(Tr) + 1 /\ pc = "idle"
MarkDone == Done => TLCSet(1, TLCGet(1) \cup {tid})
Accepted == /\ PrintT(<<"ACCEPTED", TLCGet(1)>>)
            /\ PrintT(<<"PROGRESS", TLCGet(2)>>)
            /\ TRUE
=============================================================================
