SPECIFICATION Spec
CONSTANTS
  ObjRecs <- MC_ObjRecsH
  ConRecs <- MC_ConRecs
  MaxCons = 2
  Methods <- MC_MethodsH
  OptSets <- MC_OptSets
  FaultExcs <- MC_NoExcs
  OnlySuccess = TRUE
  EditInvalidates = TRUE
  BoundsLive = TRUE
  ParamsLive = TRUE
  GateBeforeSolver = TRUE
  RestoreInFinally = TRUE
  FeasCheckAlways = TRUE
  FaultKeepsCaches = TRUE
INVARIANT TypeOK
INVARIANT C13_CachesCoherent
INVARIANT C13_SolveFresh
INVARIANT C12_NoFrozenParam
INVARIANT C18_NoSilentRelax
INVARIANT C18_StrictRaisesFirst
INVARIANT C06_OptimalFeasible
INVARIANT C20_GlobalsRestored
INVARIANT C20_FaultOutcome
PROPERTY C20_FaultKeepsCaches
CHECK_DEADLOCK FALSE
