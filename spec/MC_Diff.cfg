INIT Init
NEXT Step
CONSTANT MaxCalls = 2
INVARIANT DerivExact
INVARIANT SimpSound
INVARIANT SimpDefined
INVARIANT DSExact
INVARIANT HessSym
INVARIANT ZeroForAbsent
CHECK_DEADLOCK FALSE
