INIT Init
NEXT Next
CONSTANTS
  MaxCalls = 1
  BaseCalls <- MC_BaseCalls
  En <- MC_En
  ScalarLits <- MC_ScalarLits
  ArrayLits <- MC_ArrayLits
  Slices <- MC_Slices
  Indices <- MC_Indices
  Fns <- MC_Fns
  SOps <- MC_SOps
  VOps <- MC_VOps
  Senses <- MC_Senses
  AllNames <- MC_AllNames
  Want <- MC_Want
  SingValues <- MC_SingValues
  FinalEn <- MC_FinalEn
  Stages <- MC_Stages
  ObjCands <- MC_ObjCands
  PRPredict <- MC_NoPR
INVARIANT DenClosed

CHECK_DEADLOCK FALSE
