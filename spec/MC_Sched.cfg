SPECIFICATION SSpec
CONSTANTS
  ObjRecs = {}
  ConRecs = {}
  MaxCons = 1
  Senses = {"minimize"}
  SchedObjs <- MC_Objs
  Methods = {}
  OptSets <- MC_OptSets
  FaultExcs <- MC_Excs
  OnlySuccess = FALSE
  EditInvalidates = TRUE
  BoundsLive = TRUE
  ParamsLive = TRUE
  GateBeforeSolver = TRUE
  RestoreInFinally = TRUE
  FeasCheckAlways = TRUE
  FaultKeepsCaches = TRUE
INVARIANT C13_CachesCoherent
INVARIANT C13_SolveFresh
INVARIANT C18_NoSilentRelax
INVARIANT C18_StrictRaisesFirst
INVARIANT C06_OptimalFeasible
INVARIANT C20_GlobalsRestored
INVARIANT C20_FaultOutcome
CHECK_DEADLOCK FALSE
