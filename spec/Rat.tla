------------------------------- MODULE Rat -------------------------------
(* Exact rationals as normalised pairs <<n, d>> with d > 0 and gcd(|n|, d) = 1.
   TLC integers are 32-bit and an overflow aborts the run, so arithmetic is guarded:
   an operand whose numerator or denominator exceeds Cap yields RBad = <<1, 0>>, which is
   absorbing.  Callers (Poly.QNF, Analysis) turn a bad coefficient into "case too big". *)
EXTENDS Integers

Abs(x) == IF x < 0 THEN -x ELSE x
Cap == 30000

RECURSIVE Gcd(_, _)
Gcd(a, b) == IF b = 0 THEN a ELSE Gcd(b, a % b)

RBad        == <<1, 0>>
RIsBad(a)   == a[2] = 0
Big(a)      == Abs(a[1]) > Cap \/ a[2] > Cap

Norm(n, d) ==
    IF d = 0 THEN RBad ELSE
    LET s == IF d < 0 THEN -1 ELSE 1
        g == Gcd(Abs(n), Abs(d))
    IN  IF n = 0 THEN <<0, 1>> ELSE <<(s * n) \div g, (s * d) \div g>>

R(n)        == <<n, 1>>
RZero       == <<0, 1>>
ROne        == <<1, 1>>
RIsZero(a)  == a[1] = 0 /\ a[2] # 0
Unsafe(a, b) == RIsBad(a) \/ RIsBad(b) \/ Big(a) \/ Big(b)
RNeg(a)     == IF RIsBad(a) THEN RBad ELSE <<-a[1], a[2]>>
RAdd(a, b)  == IF Unsafe(a, b) THEN RBad ELSE Norm(a[1] * b[2] + b[1] * a[2], a[2] * b[2])
RSub(a, b)  == RAdd(a, RNeg(b))
RMul(a, b)  == IF Unsafe(a, b) THEN RBad ELSE Norm(a[1] * b[1], a[2] * b[2])
RInv(a)     == IF RIsBad(a) \/ a[1] = 0 THEN RBad ELSE Norm(a[2], a[1])
RDiv(a, b)  == RMul(a, RInv(b))
RLess(a, b) == a[1] * b[2] < b[1] * a[2]          \* callers pass small operands only
RLeq(a, b)  == a[1] * b[2] <= b[1] * a[2]
RIsInt(a)   == a[2] = 1
RECURSIVE RPowNat(_, _)
RPowNat(a, k) == IF k = 0 THEN ROne ELSE RMul(a, RPowNat(a, k - 1))
RPowInt(a, k) == IF k >= 0 THEN RPowNat(a, k) ELSE RInv(RPowNat(a, -k))
=============================================================================
