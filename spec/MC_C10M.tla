------------------------------- MODULE MC_C10M -------------------------------
(* C10, matrix part: matrix <= / >= / == scalars, arrays (C-ordered, Fortran-ordered, transposed views,
   nested lists), matrices and matrix expressions; one constraint per element, row-major. *)
EXTENDS ApiGen
Q(n, d) == Norm(n, d)
B(lb, ub) == Lit("bounds", <<lb, ub>>, <<2>>)
MC_BaseCalls == <<
    Call("MkMat", 0, 0, "continuous", B(NoneQ, NoneQ), 2, 3, 0, "A"),
    Call("MkMat", 0, 0, "continuous", B(NoneQ, NoneQ), 2, 2, 1, "S"),
    Call("MkMat", 0, 0, "continuous", B(NoneQ, NoneQ), 2, 3, 0, "C")
  >>
MC_AllNames == {<<"A", i, j>> : i \in 0..1, j \in 0..2} \cup {<<"S", 0, 0>>, <<"S", 0, 1>>, <<"S", 1, 1>>} \cup {<<"C", i, j>> : i \in 0..1, j \in 0..2}
MC_En == {"MCmp", "MCmpLit", "MBinLit", "MBin", "Transpose", "MNeg"}
MC_ObjCands == {}
MC_Stages == <<>>
MC_FinalEn == {}
MC_ScalarLits == {LitS("int", Q(2, 1)), LitS("float", Q(-5, 2)), LitS("npf64", Q(3, 1)), LitS("npi64", Q(2, 1))}
V6 == <<Q(1,1), Q(-2,1), Q(3,1), Q(4,1), Q(5,2), Q(-6,1)>>
MC_ArrayLits == {Lit("arr", V6, <<2, 3>>), Lit("arrF", V6, <<2, 3>>), Lit("arrT", V6, <<2, 3>>), Lit("list", V6, <<2, 3>>),
                 Lit("arr", <<Q(1,1), Q(2,1), Q(3,1), Q(4,1)>>, <<2, 2>>), Lit("arrF", <<Q(1,1), Q(2,1), Q(3,1), Q(4,1)>>, <<2, 2>>),
                 Lit("arr", <<Q(1,1), Q(2,1), Q(3,1)>>, <<3>>)}
MC_Slices == {}
MC_Indices == {}
MC_Fns == {}
MC_SOps == {}
MC_VOps == {"+", "*"}
MC_Senses == {"<=", ">=", "=="}
MC_SingValues == {}
MC_Want == {}
MC_NoPR(o) == <<>>
ASSUME PrintT(<<"BASE", BaseCalls, BaseHeap, AllNames, SliceTab>>)
=============================================================================
