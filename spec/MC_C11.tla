------------------------------- MODULE MC_C11 -------------------------------
(* C11: vector (and matrix) operations denote their NumPy counterparts; incompatible shapes raise. *)
EXTENDS ApiGen
Q(n, d) == Norm(n, d)
B(lb, ub) == Lit("bounds", <<lb, ub>>, <<2>>)
MC_BaseCalls == <<
    Call("MkVec", 0, 0, "continuous", B(NoneQ, NoneQ), 3, 0, 0, "x"),
    Call("MkVec", 0, 0, "continuous", B(NoneQ, NoneQ), 2, 0, 0, "y"),
    Call("MkVar", 0, 0, "continuous", B(NoneQ, NoneQ), 0, 0, 0, "s"),
    Call("Slice", 1, 0, "", NoLit, NoneI, NoneI, -1, ""),
    Call("Slice", 1, 0, "", NoLit, NoneI, NoneI, NoneI, "")
  >>
MC_AllNames == {<<"s">>, <<"x", 0>>, <<"x", 1>>, <<"x", 2>>, <<"y", 0>>, <<"y", 1>>}
MC_En == {"Index", "Slice", "VBin", "VBinLit", "VNeg", "VFn", "Sum", "Dot", "LinComb", "Norm", "SBin"}
MC_ScalarLits == {LitS("int", Q(2, 1)), LitS("float", Q(5, 2)), LitS("npf64", Q(3, 1)), LitS("npi64", Q(2, 1)),
                  LitS("bool", Q(1, 1)), LitS("npf32", Q(1, 2))}
MC_ArrayLits == {Lit("arr", <<Q(1,1), Q(2,1), Q(3,1)>>, <<3>>), Lit("arr", <<Q(4,1), Q(-1,1)>>, <<2>>),
                 Lit("list", <<Q(1,1), Q(-2,1), Q(3,1)>>, <<3>>), Lit("arri", <<Q(2,1), Q(5,1)>>, <<2>>),
                 Lit("arr", <<Q(1,1), Q(2,1), Q(3,1), Q(4,1), Q(5,1), Q(6,1)>>, <<2, 3>>),
                 Lit("arr", <<Q(1,1), Q(2,1), Q(3,1), Q(4,1)>>, <<2, 2>>),
                 Lit("arr", <<Q(2,1), Q(-1,1), Q(0,1), Q(1,1), Q(3,1), Q(1,2), Q(5,1), Q(-2,1), Q(1,1)>>, <<3, 3>>)}
MC_Slices == { <<NoneI, NoneI, NoneI>>, <<0, 2, NoneI>>, <<1, 3, NoneI>>, <<NoneI, NoneI, -1>>, <<NoneI, NoneI, 2>>,
               <<1, NoneI, NoneI>>, <<-2, NoneI, NoneI>>, <<2, 0, -1>>, <<3, NoneI, NoneI>>, <<NoneI, -1, NoneI>> }
MC_Indices == {0, -1, 1, 5, -3}
MC_Fns == {"sin", "abs", "asin"}
MC_SOps == {"+", "*"}
MC_VOps == {"+", "-", "*", "/", "**"}
MC_Senses == {}
MC_ObjCands == {}
MC_Stages == <<>>
MC_FinalEn == {}
MC_SingValues == {}
MC_Want == {}
MC_NoPR(o) == <<>>
ASSUME PrintT(<<"BASE", BaseCalls, BaseHeap, AllNames>>)
=============================================================================
