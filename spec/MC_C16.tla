------------------------------- MODULE MC_C16 -------------------------------
(* C16: a problem's variables are exactly those it mentions, in natural name order; bounds and
   domains are the declared ones.  Also carries the LP prediction used by C05. *)
EXTENDS Analysis
Q(n, d) == Norm(n, d)
B(lb, ub) == Lit("bounds", <<lb, ub>>, <<2>>)
MC_Code == [x2 |-> <<120, 50>>, x10 |-> <<120, 49, 48>>, x1y |-> <<120, 49, 121>>, w |-> <<119>>, x3 |-> <<120, 51>>, G |-> <<71>>]
MC_BaseCalls == <<
    Call("MkVar", 0, 0, "continuous", B(Q(0,1), NoneQ), 0, 0, 0, "x2"),
    Call("MkVar", 0, 0, "integer", B(NoneQ, Q(7,1)), 0, 0, 0, "x10"),
    Call("MkVar", 0, 0, "continuous", B(NoneQ, NoneQ), 0, 0, 0, "x1y"),
    Call("MkVec", 0, 0, "continuous", B(Q(0,1), Q(5,1)), 11, 0, 0, "w"),
    Call("MkVec", 0, 0, "binary", B(NoneQ, NoneQ), 2, 0, 0, "x3"),
    Call("MkMat", 0, 0, "continuous", B(Q(-1,1), NoneQ), 3, 3, 1, "G"),
    Call("Slice", 4, 0, "", NoLit, NoneI, NoneI, -1, ""),
    Call("Slice", 4, 0, "", NoLit, 8, 11, NoneI, ""),
    Call("Slice", 4, 0, "", NoLit, NoneI, NoneI, 5, ""),
    Call("SBin", 2, 1, "+", NoLit, 0, 0, 0, ""),
    Call("SBin", 10, 3, "-", NoLit, 0, 0, 0, ""),
    Call("Slice", 4, 0, "", NoLit, 0, 4, 2, ""),
    Call("Slice", 4, 0, "", NoLit, 0, 4, 3, ""),
    Call("Sum", 12, 0, "", NoLit, 0, 0, 0, ""),
    Call("MGet", 6, 0, "", NoLit, 0, 2, 1, ""),
    Call("MGet", 6, 0, "", NoLit, 0, 3, 1, "")
  >>
MC_AllNames == {<<"x2">>, <<"x10">>, <<"x1y">>} \cup {<<"w", i>> : i \in 0..10} \cup {<<"x3", 0>>, <<"x3", 1>>}
               \cup {<<"G", i, j>> : i \in 0..2, j \in 0..2}
MC_En == {"Sum", "LinComb", "Dot", "Index", "MGet", "Diagonal", "Transpose", "CmpLit", "Cmp", "Problem",
          "SBin", "VBinLit", "Frobenius"}
MC_ScalarLits == {LitS("int", Q(2, 1))}
MC_ArrayLits == {Lit("arr", <<Q(1,1), Q(-2,1), Q(3,1)>>, <<3>>), Lit("arr", <<Q(2,1), Q(5,1)>>, <<2>>), Lit("arr", <<Q(0,1), Q(5,1)>>, <<2>>),      \* a zero coefficient still mentions its variable
                 
                 Lit("arr", <<Q(1,1), Q(1,1), Q(1,1), Q(1,1), Q(1,1), Q(1,1), Q(1,1), Q(1,1), Q(1,1), Q(1,1), Q(2,1)>>, <<11>>)}
MC_Slices == {}
MC_Indices == {10}
MC_Fns == {}
MC_SOps == {"+"}
MC_VOps == {"*"}
MC_Senses == {"<=", "=="}
MC_ObjCands == {}
MC_Stages == <<>>
\* thorough tier: a view, a reduction / expression over it, a comparison, the problem
MC_ViewCalls == {"Index", "MGet", "Diagonal", "Transpose"}
MC_ExprCalls == {"Sum", "LinComb", "Dot", "SBin", "VBinLit", "Frobenius"}
MC_StagesDeep == << MC_ViewCalls, MC_ExprCalls, {"CmpLit", "Cmp"}, {"Problem"} >>
MC_FinalEn == {"Problem"}
MC_SingValues == {}
MC_Want == {}
ASSUME PrintT(<<"BASE", BaseCalls, BaseHeap, AllNames, SliceTab>>)
ASSUME PrintT(<<"CODE", [k \in DOMAIN MC_Code |-> MC_Code[k]]>>)
\* natural order really differs from plain string order on this signature, and the spec knows it
ASSUME NatLess(<<"x2">>, <<"x10">>) /\ NatLess(<<"x1y">>, <<"x2">>) /\ NatLess(<<"w", 2>>, <<"w", 10>>) /\ NatLess(<<"w", 10>>, <<"x2">>)
ASSUME NatLess(<<"G", 0, 1>>, <<"G", 1, 1>>) /\ ~NatLess(<<"x10">>, <<"x2">>)
=============================================================================
