------------------------------- MODULE Analysis -------------------------------
(* What a problem *is*: its variable list (natural order), its declared bounds, and - when it is
   linear - the LP it denotes.  Exact rational arithmetic throughout. *)
EXTENDS ApiGen, Names

\* ---- declared bounds / domains come from the constructor calls
BaseCallOf(nm) == LET i == CHOOSE i \in 1..Len(BaseCalls) :
                              BaseCalls[i].c \in {"MkVar", "MkVec", "MkMat"} /\ BaseCalls[i].s = nm[1]
                  IN BaseCalls[i]
DomainOf(nm) == BaseCallOf(nm).op
BoundsOf(nm) == IF DomainOf(nm) = "binary" THEN <<R(0), R(1)>> ELSE BaseCallOf(nm).lit.qs

\* ---- the problem's variables: exactly those occurring, natural order
PrTerms(pr) == <<pr.obj>> \o [k \in 1..Len(pr.cons) |-> pr.cons[k].den]
PrVarSet(pr) == UNION {TVars(PrTerms(pr)[k]) : k \in 1..Len(PrTerms(pr))}
\* keys of all declared names, computed once
KeyOf == [n \in AllNames |-> NatKey(n)]
FastLess(a, b) == KeyLess(KeyOf[a], KeyOf[b])
ProblemVars(pr) == SortSeq(SetToSeq(PrVarSet(pr)), FastLess)

\* ---- linear programs
IsAffine(t) == TPars(t) = {} /\ SpecDeg(t) \in {0, 1}
IsLP(pr) == \A k \in 1..Len(PrTerms(pr)) : IsAffine(PrTerms(pr)[k])
AffPoly(t) == QToPoly(QNF(t).q)
Row(t, vs) == LET p == AffPoly(t) IN [i \in 1..Len(vs) |-> PLin(p, vs[i])]
Const0(t) == PConstVal(AffPoly(t))
NegRow(r) == [i \in 1..Len(r) |-> RNeg(r[i])]
\* canonical matrix form: <= rows as written, >= rows negated, == rows kept; each group in constraint order
LP(pr) ==
    LET vs == ProblemVars(pr)
        ks == 1..Len(pr.cons)
        ubIdx == SelectSeq([k \in ks |-> k], LAMBDA k : pr.cons[k].sense \in {"<=", ">="})
        eqIdx == SelectSeq([k \in ks |-> k], LAMBDA k : pr.cons[k].sense = "==")
        ubRow(k) == LET cn == pr.cons[k] IN
                    IF cn.sense = "<=" THEN [a |-> Row(cn.den, vs), b |-> RNeg(Const0(cn.den))]
                    ELSE [a |-> NegRow(Row(cn.den, vs)), b |-> Const0(cn.den)]
        eqRow(k) == LET cn == pr.cons[k] IN [a |-> Row(cn.den, vs), b |-> RNeg(Const0(cn.den))]
    IN [c |-> Row(pr.obj, vs), c0 |-> Const0(pr.obj), sense |-> IF pr.sense = "minimize" THEN "min" ELSE "max",
        ub |-> [i \in 1..Len(ubIdx) |-> ubRow(ubIdx[i])],
        eq |-> [i \in 1..Len(eqIdx) |-> eqRow(eqIdx[i])]]

ProblemPred(pr) ==
    LET vs == ProblemVars(pr)
        lp == IsLP(pr) IN
    [vars   |-> vs,
     bounds |-> [i \in 1..Len(vs) |-> BoundsOf(vs[i])],
     domains |-> [i \in 1..Len(vs) |-> DomainOf(vs[i])],
     islp   |-> lp,
     lp     |-> IF lp THEN LP(pr) ELSE <<>>,
     degs   |-> [k \in 1..Len(PrTerms(pr)) |-> SpecDeg(PrTerms(pr)[k])]]

\* ---- every element reachable through a view carries its declared bounds and domain (binary => [0, 1])
ViewNames(o) == IF o.kind = "V" THEN o.names ELSE IF o.kind = "M" THEN FlattenSeq(o.names) ELSE <<o.den.n>>
ViewPred(o) ==
    IF o.kind = "PR" THEN ProblemPred(o)
    ELSE LET ns == ViewNames(o) IN
         [names |-> ns, bounds |-> [i \in 1..Len(ns) |-> BoundsOf(ns[i])], domains |-> [i \in 1..Len(ns) |-> DomainOf(ns[i])]]

\* ---- spec-internal theorem (C05 on the spec): the LP denotes the model at every grid point
GridEnv(vs, g) == [n \in {vs[i] : i \in 1..Len(vs)} |-> R(g[(CHOOSE i \in 1..Len(vs) : vs[i] = n)])]
RDotV(r, vs, env) == LET S == 1..Len(vs) IN
    FoldSet(LAMBDA i, acc : RAdd(acc, RMul(r[i], env[vs[i]])), RZero, S)
=============================================================================
