INIT Init
NEXT Next
INVARIANT X0Inside
INVARIANT AutoNeverUnsupported
CHECK_DEADLOCK FALSE
