------------------------------- MODULE MC_Diff -------------------------------
(* Spec-internal theorems, checked exhaustively over all terms of <= MaxCalls constructor calls:
   the derivative table is exact on the rational fragment, the simplifier preserves denotations,
   Hessians are symmetric in normal form, and v not in Vars(t) => D(t, v) = 0. *)
EXTENDS Diff
CONSTANTS MaxCalls
VarNames == {<<"x">>, <<"y">>}
Leaves == << Var(<<"x">>), Var(<<"y">>), CQ(-1,1), CQ(2,1), CQ(1,2), CQ(0,1), Par(1) >>
MBinOps == {"+", "-", "*", "/", "**"}
MUnOps  == {"neg", "sin", "log"}
VARIABLES heap
NB == Len(Leaves)
Init == heap = Leaves
HL == Len(heap)
Step == /\ HL < NB + MaxCalls
        /\ \/ \E o \in MBinOps, a \in 1..HL, b \in 1..HL :
                /\ (HL = NB \/ a = HL \/ b = HL)
                /\ heap' = Append(heap, Bin(o, heap[a], heap[b]))
           \/ \E f \in MUnOps, a \in 1..HL :
                /\ (HL = NB \/ a = HL)
                /\ heap' = Append(heap, Un(f, heap[a]))
Top == heap[HL]
DerivExact == \A v \in VarNames :
    LET n == QNF(Top) IN
    n.ok => LET dn == QNF(D(Top, v)) IN dn.ok => QEqSafe(dn.q, QDeriv(n.q, v))
SimpSound == LET n == QNF(Top)  s == QNF(Simp(Top)) IN (n.ok /\ s.ok) => QEqSafe(n.q, s.q)
SimpDefined == LET n == QNF(Top)  s == QNF(Simp(Top)) IN n.ok => (s.ok \/ s.why = "toobig")
DSExact == \A v \in VarNames :
    LET n == QNF(Top) IN
    n.ok => LET dn == QNF(DS(Top, v)) IN dn.ok => QEqSafe(dn.q, QDeriv(n.q, v))
HessSym == \A v \in VarNames, w \in VarNames :
    LET a == QNF(H(Top, v, w))  b == QNF(H(Top, w, v)) IN (a.ok /\ b.ok) => QEqSafe(a.q, b.q)
ZeroForAbsent == \A v \in VarNames : v \notin TVars(Top) => IsC(DS(Top, v), 0)
=============================================================================
