------------------------------- MODULE MC_C11M -------------------------------
(* C11, matrix part: views (rows, columns, sub-matrices, transposes, symmetric sharing, diagonal),
   element-wise arithmetic and broadcasting, sum, trace, Frobenius norm, matrix-vector products,
   quadratic forms; incompatible shapes raise. *)
EXTENDS ApiGen
Q(n, d) == Norm(n, d)
B(lb, ub) == Lit("bounds", <<lb, ub>>, <<2>>)
MC_BaseCalls == <<
    Call("MkMat", 0, 0, "continuous", B(NoneQ, NoneQ), 2, 3, 0, "A"),
    Call("MkMat", 0, 0, "continuous", B(NoneQ, NoneQ), 2, 2, 1, "S"),
    Call("MkMat", 0, 0, "continuous", B(NoneQ, NoneQ), 3, 3, 0, "C"),
    Call("MkVec", 0, 0, "continuous", B(NoneQ, NoneQ), 3, 0, 0, "x"),
    Call("MkVec", 0, 0, "continuous", B(NoneQ, NoneQ), 2, 0, 0, "y"),
    Call("MGet", 1, 0, "", NoLit, 0, 2, 1, ""),
    Call("MGet", 1, 0, "", NoLit, 0, 3, 1, ""),
    Call("MGet", 3, 0, "", NoLit, 2, 1, 2, ""),
    Call("MGet", 3, 0, "", NoLit, 3, 1, 2, "")
  >>
MC_AllNames == {<<"A", i, j>> : i \in 0..1, j \in 0..2} \cup {<<"S", 0, 0>>, <<"S", 0, 1>>, <<"S", 1, 1>>}
               \cup {<<"C", i, j>> : i \in 0..2, j \in 0..2} \cup {<<"x", i>> : i \in 0..2} \cup {<<"y", i>> : i \in 0..1}
MC_En == {"MGet", "Transpose", "Diagonal", "Trace", "Frobenius", "MBin", "MBinLit", "MNeg", "MatVec", "QuadForm",
          "Sum", "Dot", "LinComb", "Slice"}
MC_ScalarLits == {LitS("int", Q(2, 1)), LitS("float", Q(5, 2)), LitS("npf64", Q(3, 1)), LitS("npi64", Q(2, 1))}
MC_ArrayLits == {Lit("arr", <<Q(1,1), Q(2,1), Q(3,1), Q(4,1), Q(5,1), Q(6,1)>>, <<2, 3>>),
                 Lit("arr", <<Q(1,1), Q(2,1), Q(3,1), Q(4,1)>>, <<2, 2>>),
                 Lit("arr", <<Q(2,1), Q(-1,1), Q(0,1), Q(1,1), Q(3,1), Q(1,2), Q(0,1), Q(-2,1), Q(1,1)>>, <<3, 3>>),
                 Lit("list", <<Q(1,1), Q(-2,1), Q(3,1), Q(0,1), Q(1,2), Q(2,1)>>, <<2, 3>>),
                 \* the same logical 2x3 / 2x2 values in other memory layouts (Fortran order, a transposed view)
                 Lit("arrF", <<Q(1,1), Q(2,1), Q(3,1), Q(4,1), Q(5,1), Q(6,1)>>, <<2, 3>>),
                 Lit("arrT", <<Q(1,1), Q(2,1), Q(3,1), Q(4,1)>>, <<2, 2>>),
                 Lit("arr", <<Q(1,1), Q(2,1), Q(3,1)>>, <<3>>), Lit("arr", <<Q(4,1), Q(-1,1)>>, <<2>>)}
MC_Slices == { <<NoneI, NoneI, -1>>, <<0, 2, NoneI>> }
MC_Indices == {0, -1, 1, 3}
MC_Fns == {}
MC_SOps == {}
MC_VOps == {"+", "-", "*", "/", "**"}
MC_Senses == {}
MC_ObjCands == {}
MC_Stages == <<>>
MC_FinalEn == {}
MC_SingValues == {}
MC_Want == {}
MC_NoPR(o) == <<>>
ASSUME PrintT(<<"BASE", BaseCalls, BaseHeap, AllNames, SliceTab>>)
=============================================================================
