------------------------------- MODULE Diff -------------------------------
(* Textbook derivative table: D(t, v) is the partial derivative of term t w.r.t. variable name v;
   H(t, v, w) the second derivative; Simp a denotation-preserving simplifier used to keep the
   emitted derivative terms small.  MC_Diff checks with TLC that the table is exact and the
   simplifier sound on the rational fragment. *)
EXTENDS Terms

Add(a, b) == Bin("+", a, b)
Sub(a, b) == Bin("-", a, b)
Mul(a, b) == Bin("*", a, b)
Div(a, b) == Bin("/", a, b)
Pow(a, b) == Bin("**", a, b)
Neg(a)    == Un("neg", a)
CQ(n, d)  == Const(Norm(n, d))
Sq(a)     == Mul(a, a)

\* f'(a) for the 19 unary functions, as a term in a
UnaryPrime(f, a) ==
  CASE f = "neg"   -> CQ(-1, 1)
    [] f = "abs"   -> Div(a, Un("abs", a))
    [] f = "sin"   -> Un("cos", a)
    [] f = "cos"   -> Neg(Un("sin", a))
    [] f = "tan"   -> Div(C1, Sq(Un("cos", a)))
    [] f = "exp"   -> Un("exp", a)
    [] f = "log"   -> Div(C1, a)
    [] f = "log2"  -> Div(C1, Mul(a, Un("log", CQ(2, 1))))
    [] f = "log10" -> Div(C1, Mul(a, Un("log", CQ(10, 1))))
    [] f = "sqrt"  -> Div(C1, Mul(CQ(2, 1), Un("sqrt", a)))
    [] f = "tanh"  -> Sub(C1, Sq(Un("tanh", a)))
    [] f = "sinh"  -> Un("cosh", a)
    [] f = "cosh"  -> Un("sinh", a)
    [] f = "asin"  -> Div(C1, Un("sqrt", Sub(C1, Sq(a))))
    [] f = "acos"  -> Neg(Div(C1, Un("sqrt", Sub(C1, Sq(a)))))
    [] f = "atan"  -> Div(C1, Add(C1, Sq(a)))
    [] f = "asinh" -> Div(C1, Un("sqrt", Add(Sq(a), C1)))
    [] f = "acosh" -> Div(C1, Un("sqrt", Sub(Sq(a), C1)))
    [] f = "atanh" -> Div(C1, Sub(C1, Sq(a)))

RECURSIVE D(_, _)
D(t, v) ==
  CASE t.k = "const" -> C0
    [] t.k = "par"   -> C0
    [] t.k = "var"   -> IF t.n = v THEN C1 ELSE C0
    [] t.k = "un"    -> Mul(UnaryPrime(t.f, t.a), D(t.a, v))
    [] t.k = "bin"   ->
         CASE t.op = "+"  -> Add(D(t.l, v), D(t.r, v))
           [] t.op = "-"  -> Sub(D(t.l, v), D(t.r, v))
           [] t.op = "*"  -> Add(Mul(t.l, D(t.r, v)), Mul(t.r, D(t.l, v)))
           [] t.op = "/"  -> Div(Sub(Mul(t.r, D(t.l, v)), Mul(t.l, D(t.r, v))), Sq(t.r))
           [] t.op = "**" ->
                IF IsConst(t.r)
                THEN IF RIsZero(t.r.q) THEN C0
                     ELSE Mul(Mul(t.r, Pow(t.l, Const(RSub(t.r.q, ROne)))), D(t.l, v))
                ELSE IF TVars(t.r) = {}     \* exponent free of variables (e.g. a parameter): power rule
                THEN Mul(Mul(t.r, Pow(t.l, Sub(t.r, C1))), D(t.l, v))
                ELSE Mul(t, Add(Mul(D(t.r, v), Un("log", t.l)), Div(Mul(t.r, D(t.l, v)), t.l)))

(* Simplifier with the side conditions under which each rule preserves the denotation. *)
IsC(t, n) == t.k = "const" /\ t.q = R(n)
SimpNode(t) ==
  IF t.k = "bin" THEN
    CASE t.op = "+"  -> IF IsC(t.l, 0) THEN t.r ELSE IF IsC(t.r, 0) THEN t.l
                        ELSE IF IsConst(t.l) /\ IsConst(t.r) /\ ~RIsBad(RAdd(t.l.q, t.r.q)) THEN Const(RAdd(t.l.q, t.r.q)) ELSE t
      [] t.op = "-"  -> IF IsC(t.r, 0) THEN t.l ELSE IF IsC(t.l, 0) THEN Neg(t.r)
                        ELSE IF IsConst(t.l) /\ IsConst(t.r) /\ ~RIsBad(RSub(t.l.q, t.r.q)) THEN Const(RSub(t.l.q, t.r.q)) ELSE t
      [] t.op = "*"  -> IF IsC(t.l, 0) \/ IsC(t.r, 0) THEN C0 ELSE IF IsC(t.l, 1) THEN t.r ELSE IF IsC(t.r, 1) THEN t.l
                        ELSE IF IsConst(t.l) /\ IsConst(t.r) /\ ~RIsBad(RMul(t.l.q, t.r.q)) THEN Const(RMul(t.l.q, t.r.q)) ELSE t
      [] t.op = "/"  -> IF IsC(t.l, 0) THEN C0 ELSE IF IsC(t.r, 1) THEN t.l ELSE t
      [] t.op = "**" -> IF IsC(t.r, 0) THEN C1 ELSE IF IsC(t.r, 1) THEN t.l
                        ELSE IF IsC(t.l, 0) /\ IsConst(t.r) /\ RLess(RZero, t.r.q) THEN C0
                        ELSE IF IsC(t.l, 1) THEN C1 ELSE t
  ELSE IF t.k = "un" /\ t.f = "neg" THEN
    (IF IsC(t.a, 0) THEN C0 ELSE IF t.a.k = "un" /\ t.a.f = "neg" THEN t.a.a
     ELSE IF IsConst(t.a) THEN Const(RNeg(t.a.q)) ELSE t)
  ELSE t
RECURSIVE Simp(_)
Simp(t) == CASE t.k = "bin" -> SimpNode(Bin(t.op, Simp(t.l), Simp(t.r)))
             [] t.k = "un"  -> SimpNode(Un(t.f, Simp(t.a)))
             [] OTHER -> t

DS(t, v)    == Simp(D(t, v))
H(t, v, w)  == Simp(D(DS(t, v), w))
=============================================================================
