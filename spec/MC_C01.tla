------------------------------- MODULE MC_C01 -------------------------------
EXTENDS ApiGen
Q(n, d) == Norm(n, d)
B(lb, ub) == Lit("bounds", <<lb, ub>>, <<2>>)
MC_BaseCalls == <<
    Call("MkVar", 0, 0, "continuous", B(NoneQ, NoneQ), 0, 0, 0, "s"),
    Call("MkVar", 0, 0, "continuous", B(NoneQ, NoneQ), 0, 0, 0, "t"),
    Call("MkVec", 0, 0, "continuous", B(NoneQ, NoneQ), 3, 0, 0, "x"),
    Call("MkPar", 0, 0, "", LitS("float", Q(3, 2)), 1, 0, 0, "p"),
    Call("Slice", 3, 0, "", NoLit, 0, 2, NoneI, ""),
    Call("Slice", 3, 0, "", NoLit, NoneI, NoneI, -1, ""),
    Call("Slice", 3, 0, "", NoLit, 1, 3, NoneI, ""),
    Call("Slice", 3, 0, "", NoLit, NoneI, NoneI, NoneI, "")
  >>
MC_AllNames == {<<"s">>, <<"t">>, <<"x", 0>>, <<"x", 1>>, <<"x", 2>>}
MC_En == {"SBin", "SBinLit", "SNeg", "Fn", "VFn", "Index", "VBin", "VBinLit", "VNeg", "Sum", "Dot", "LinComb", "Norm"}
MC_ScalarLits == {LitS("int", Q(2, 1)), LitS("float", Q(1, 2)), LitS("int", Q(-1, 1)), LitS("int", Q(0, 1)), LitS("tiny", Q(3, 1))}
MC_ArrayLits == {Lit("arr", <<Q(1,1), Q(-2,1), Q(3,1)>>, <<3>>), Lit("arr", <<Q(2,1), Q(5,1)>>, <<2>>)}
MC_Slices == {}
MC_Indices == {0, -1}
MC_Fns == UnFns \ {"neg"}
MC_FnsSmall == {"sin", "sqrt", "abs"}
MC_ScalarLitsSmall == {LitS("int", Q(2, 1)), LitS("float", Q(1, 2))}
MC_SOpsSmall == {"+", "*", "**"}      \* thorough tier of the derivative checks: one call deeper over a reduced alphabet
MC_VOpsSmall == {"*"}
MC_IndicesSmall == {0}
MC_SOps == {"+", "-", "*", "/", "**"}
MC_VOps == {"+", "-", "*", "/", "**"}
MC_Senses == {}
MC_ObjCands == {}
MC_Stages == <<>>
MC_FinalEn == {}
MC_SingValues == {}
MC_Want == {"V"}
MC_WantD == {"D"}
MC_WantDV == {"D", "V", "V3"}
MC_WantH == {"D", "H", "V"}
MC_NoPR(o) == <<>>
ASSUME PrintT(<<"BASE", BaseCalls, BaseHeap, AllNames>>)
=============================================================================
