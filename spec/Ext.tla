------------------------------- MODULE Ext -------------------------------
(* Extended evaluation of terms at points on singular sets: rationals plus +inf, -inf, NaN, with the
   IEEE-754 conventions the compiled callables inherit from NumPy (1/0 = inf, 0/0 = NaN, 0*inf = NaN,
   0**negative = inf, log 0 = -inf, sqrt(negative) = NaN).  TLC has no reals: a finite value that is
   not a rational it can compute exactly (sin 3/2, sqrt 2) is the opaque class "ufin" (finite, value
   supplied by the independent interpreter), and an infinity whose sign depends on it is "uinf".
   Zeros are unsigned (+0). *)
EXTENDS Diff

Fin(q)  == [c |-> "fin", q |-> q]
UFinS(sg) == [c |-> "ufin", q |-> R(sg)]      \* opaque finite NONZERO value; q carries its sign (1, -1) or 0 = unknown (may be zero)
UFin    == UFinS(0)
PInf    == [c |-> "pinf", q |-> RZero]
NInf    == [c |-> "ninf", q |-> RZero]
UInf    == [c |-> "uinf", q |-> RZero]
NaN     == [c |-> "nan", q |-> RZero]
\* a partial function applied to an opaque value whose membership in the domain TLC cannot decide (asin of
\* sqrt 2 ...): possibly undefined.  Absorbing like NaN; nothing beyond finiteness is demanded of such an entry.
Unk     == [c |-> "unk", q |-> RZero]
IsFin(v)  == v.c = "fin"
IsZero(v) == v.c = "fin" /\ RIsZero(v.q)
IsInf(v)  == v.c \in {"pinf", "ninf", "uinf"}
Finite(v) == v.c \in {"fin", "ufin"}
Sgn(v)    == IF v.c = "fin" THEN (IF RIsZero(v.q) THEN 0 ELSE IF RLess(RZero, v.q) THEN 1 ELSE -1)
             ELSE IF v.c = "pinf" THEN 1 ELSE IF v.c = "ninf" THEN -1
             ELSE IF v.c = "ufin" /\ v.q[1] # 0 THEN v.q[1] ELSE 9          \* 9 = unknown
InfOfSign(s) == IF s = 1 THEN PInf ELSE IF s = -1 THEN NInf ELSE UInf
SafeFin(q) == IF RIsBad(q) THEN UFin ELSE Fin(q)

ENeg(a) == CASE a.c = "fin" -> Fin(RNeg(a.q)) [] a.c = "pinf" -> NInf [] a.c = "ninf" -> PInf
             [] a.c = "ufin" -> UFinS(-a.q[1]) [] OTHER -> a
UFinOfSign(sg) == IF sg = 9 THEN UFin ELSE UFinS(sg)
EAdd(a, b) ==
    IF a.c = "nan" \/ b.c = "nan" THEN NaN
    ELSE IF a.c = "unk" \/ b.c = "unk" THEN Unk
    ELSE IF IsInf(a) /\ IsInf(b) THEN (IF a.c = b.c /\ a.c # "uinf" THEN a ELSE NaN)
    ELSE IF IsInf(a) THEN a ELSE IF IsInf(b) THEN b
    ELSE IF IsFin(a) /\ IsFin(b) THEN SafeFin(RAdd(a.q, b.q))
    ELSE IF IsZero(a) THEN b ELSE IF IsZero(b) THEN a
    ELSE IF Sgn(a) = Sgn(b) /\ Sgn(a) # 9 THEN UFinS(Sgn(a))
    ELSE UFin
ESub(a, b) == EAdd(a, ENeg(b))
MulSign(s, t) == IF s = 9 \/ t = 9 THEN 9 ELSE s * t
EMul(a, b) ==
    IF a.c = "nan" \/ b.c = "nan" THEN NaN
    ELSE IF a.c = "unk" \/ b.c = "unk" THEN Unk
    ELSE IF (IsZero(a) /\ IsInf(b)) \/ (IsInf(a) /\ IsZero(b)) THEN NaN
    ELSE IF IsInf(a) \/ IsInf(b) THEN InfOfSign(MulSign(Sgn(a), Sgn(b)))
    ELSE IF IsZero(a) \/ IsZero(b) THEN Fin(RZero)
    ELSE IF IsFin(a) /\ IsFin(b) THEN SafeFin(RMul(a.q, b.q))
    ELSE UFinOfSign(MulSign(Sgn(a), Sgn(b)))
EDiv(a, b) ==
    IF a.c = "nan" \/ b.c = "nan" THEN NaN
    ELSE IF a.c = "unk" \/ b.c = "unk" THEN Unk
    ELSE IF IsInf(b) THEN (IF IsInf(a) THEN NaN ELSE Fin(RZero))
    ELSE IF IsZero(b) THEN (IF IsZero(a) THEN NaN ELSE IF a.c = "ufin" /\ Sgn(a) = 9 THEN UInf ELSE InfOfSign(Sgn(a)))
    ELSE IF IsInf(a) THEN InfOfSign(MulSign(Sgn(a), Sgn(b)))
    ELSE IF IsZero(a) THEN Fin(RZero)
    ELSE IF IsFin(a) /\ IsFin(b) THEN SafeFin(RDiv(a.q, b.q))
    ELSE UFinOfSign(MulSign(Sgn(a), Sgn(b)))
\* a ** b for an exponent that evaluated to an exact rational
EPow(a, b) ==
    IF a.c = "nan" \/ b.c = "nan" THEN NaN
    ELSE IF a.c = "unk" \/ b.c = "unk" THEN Unk
    ELSE IF ~IsFin(b) THEN (IF Sgn(a) = 1 THEN UFinS(1) ELSE Unk)
    ELSE IF IsZero(b) THEN Fin(ROne)
    ELSE IF IsZero(a) THEN (IF RLess(RZero, b.q) THEN Fin(RZero) ELSE PInf)
    ELSE IF IsInf(a) THEN (IF RLess(RZero, b.q) THEN (IF a.c = "pinf" THEN PInf ELSE UInf) ELSE Fin(RZero))
    ELSE IF IsFin(a) /\ RIsInt(b.q) /\ Abs(b.q[1]) <= 6 THEN SafeFin(RPowInt(a.q, b.q[1]))
    ELSE IF IsFin(a) /\ RLess(a.q, RZero) /\ ~RIsInt(b.q) THEN NaN
    ELSE IF Sgn(a) = 1 THEN UFinS(1)
    ELSE IF RIsInt(b.q) THEN UFin
    ELSE IF Sgn(a) = -1 THEN NaN ELSE Unk
\* exact square roots of small perfect squares (sqrt(9/4) = 3/2), so that norms at rational points stay exact
HasRoot(q) == \E r \in 0..30, d \in 1..30 : r * r = q[1] /\ d * d = q[2]
RootOf(q) == LET r == CHOOSE r \in 0..30 : r * r = q[1]  d == CHOOSE d \in 1..30 : d * d = q[2] IN Norm(r, d)
EUn(f, a) ==
    IF a.c = "nan" THEN NaN
    ELSE IF a.c = "unk" THEN Unk
    ELSE IF f = "neg" THEN ENeg(a)
    ELSE IF f = "abs" THEN (IF IsInf(a) THEN PInf ELSE IF IsFin(a) THEN Fin(IF RLess(a.q, RZero) THEN RNeg(a.q) ELSE a.q) ELSE UFin)
    ELSE IF f = "sqrt" THEN (IF a.c = "pinf" THEN PInf ELSE IF a.c \in {"ninf", "uinf"} THEN NaN
                             ELSE IF IsZero(a) THEN Fin(RZero) ELSE IF IsFin(a) /\ RLess(a.q, RZero) THEN NaN
                             ELSE IF IsFin(a) /\ HasRoot(a.q) THEN Fin(RootOf(a.q))
                             ELSE IF Sgn(a) = 1 THEN UFinS(1) ELSE IF Sgn(a) = -1 THEN NaN ELSE Unk)
    ELSE IF f \in {"log", "log2", "log10"} THEN (IF a.c = "pinf" THEN PInf ELSE IF IsInf(a) THEN NaN
                             ELSE IF IsZero(a) THEN NInf ELSE IF IsFin(a) /\ RLess(a.q, RZero) THEN NaN
                             ELSE IF IsFin(a) /\ a.q = ROne THEN Fin(RZero)
                             ELSE IF IsFin(a) THEN UFinS(IF RLess(ROne, a.q) THEN 1 ELSE -1)
                             ELSE IF Sgn(a) = 1 THEN UFin ELSE IF Sgn(a) = -1 THEN NaN ELSE Unk)
    ELSE IF f = "exp" THEN (IF a.c = "pinf" THEN PInf ELSE IF a.c = "ninf" THEN Fin(RZero) ELSE IF IsZero(a) THEN Fin(ROne) ELSE UFinS(1))
    ELSE IF f \in {"sin", "tan", "tanh", "sinh", "atan", "asinh"} THEN
            (IF IsZero(a) THEN Fin(RZero) ELSE IF IsInf(a) THEN (IF f \in {"sin", "tan"} THEN NaN ELSE UFin) ELSE UFin)
    ELSE IF f \in {"cos", "cosh"} THEN (IF IsZero(a) THEN Fin(ROne) ELSE IF IsInf(a) THEN (IF f = "cos" THEN NaN ELSE PInf)
                                        ELSE IF f = "cosh" THEN UFinS(1) ELSE UFin)
    ELSE IF f = "asin" THEN (IF IsZero(a) THEN Fin(RZero) ELSE IF IsInf(a) THEN NaN
                             ELSE IF IsFin(a) /\ (RLess(ROne, a.q) \/ RLess(a.q, R(-1))) THEN NaN ELSE IF IsFin(a) THEN UFin ELSE Unk)
    ELSE IF f = "acos" THEN (IF IsFin(a) /\ a.q = ROne THEN Fin(RZero) ELSE IF IsInf(a) THEN NaN
                             ELSE IF IsFin(a) /\ (RLess(ROne, a.q) \/ RLess(a.q, R(-1))) THEN NaN ELSE IF IsFin(a) THEN UFin ELSE Unk)
    ELSE IF f = "acosh" THEN (IF IsFin(a) /\ a.q = ROne THEN Fin(RZero) ELSE IF a.c = "pinf" THEN PInf
                             ELSE IF IsFin(a) /\ RLess(a.q, ROne) THEN NaN ELSE IF IsInf(a) THEN NaN ELSE IF IsFin(a) THEN UFin ELSE Unk)
    ELSE IF f = "atanh" THEN (IF IsZero(a) THEN Fin(RZero) ELSE IF IsFin(a) /\ a.q = ROne THEN PInf
                             ELSE IF IsFin(a) /\ a.q = R(-1) THEN NInf ELSE IF IsInf(a) THEN NaN
                             ELSE IF IsFin(a) /\ (RLess(ROne, a.q) \/ RLess(a.q, R(-1))) THEN NaN ELSE IF IsFin(a) THEN UFin ELSE Unk)
    ELSE UFin

RECURSIVE ExtEval(_, _)
ExtEval(t, env) ==
  CASE t.k = "const" -> Fin(t.q)
    [] t.k = "var"   -> Fin(env[t.n])
    [] t.k = "par"   -> UFin
    [] t.k = "un"    -> EUn(t.f, ExtEval(t.a, env))
    [] t.k = "bin"   ->
         LET a == ExtEval(t.l, env)  b == ExtEval(t.r, env) IN
         CASE t.op = "+"  -> EAdd(a, b)
           [] t.op = "-"  -> ESub(a, b)
           [] t.op = "*"  -> EMul(a, b)
           [] t.op = "/"  -> EDiv(a, b)
           [] t.op = "**" -> EPow(a, b)

\* what a sanitised derivative callable must return for an entry of that class
\*   "fin" q: exactly q ; "ufin": the finite true value ; "undef": 0 ; "+big" / "-big" / "big": (+-)1e16 ;
\*   "any": undecidable here whether the entry is defined - any finite number
Sanitize(v) == CASE v.c = "fin" -> [cls |-> "fin", q |-> v.q]
                 [] v.c = "ufin" -> [cls |-> "ufin", q |-> RZero]
                 [] v.c = "nan"  -> [cls |-> "undef", q |-> RZero]
                 [] v.c = "unk"  -> [cls |-> "any", q |-> RZero]
                 [] v.c = "pinf" -> [cls |-> "+big", q |-> RZero]
                 [] v.c = "ninf" -> [cls |-> "-big", q |-> RZero]
                 [] v.c = "uinf" -> [cls |-> "big", q |-> RZero]
=============================================================================
