------------------------------- MODULE MC_C01M -------------------------------
(* Scalar results of matrix-layer constructions (sum, trace, Frobenius norm, quadratic forms,
   matrix-vector products under dot / sum, element access) for C01 / C02 / C03 / C17. *)
EXTENDS ApiGen
Q(n, d) == Norm(n, d)
B(lb, ub) == Lit("bounds", <<lb, ub>>, <<2>>)
MC_BaseCalls == <<
    Call("MkMat", 0, 0, "continuous", B(NoneQ, NoneQ), 2, 2, 0, "A"),
    Call("MkMat", 0, 0, "continuous", B(NoneQ, NoneQ), 2, 2, 1, "S"),
    Call("MkVec", 0, 0, "continuous", B(NoneQ, NoneQ), 2, 0, 0, "x"),
    Call("MkVar", 0, 0, "continuous", B(NoneQ, NoneQ), 0, 0, 0, "s")
  >>
MC_AllNames == {<<"A", i, j>> : i \in 0..1, j \in 0..1} \cup {<<"S", 0, 0>>, <<"S", 0, 1>>, <<"S", 1, 1>>}
               \cup {<<"x", i>> : i \in 0..1} \cup {<<"s">>}
MC_En == {"MGet", "Transpose", "Diagonal", "Trace", "Frobenius", "MBin", "MBinLit", "MNeg", "MatVec", "QuadForm",
          "Sum", "Dot", "LinComb", "SBin", "SBinLit", "Fn", "Norm"}
MC_ScalarLits == {LitS("int", Q(2, 1)), LitS("float", Q(1, 2))}
MC_ArrayLits == {Lit("arr", <<Q(2,1), Q(-1,1), Q(1,1), Q(3,1)>>, <<2, 2>>), Lit("arr", <<Q(3,1), Q(-2,1)>>, <<2>>)}
MC_Slices == {}
MC_Indices == {0, 1}
MC_Fns == {"exp"}
MC_SOps == {"+", "*"}
MC_VOps == {"+", "*", "-"}
MC_Senses == {}
MC_ObjCands == {}
MC_Stages == <<>>
MC_FinalEn == {}
MC_SingValues == {}
MC_Want == {"V"}
MC_WantD == {"D"}
MC_WantDV == {"D", "V", "V3"}
MC_WantH == {"D", "H", "V"}
MC_NoPR(o) == <<>>
ASSUME PrintT(<<"BASE", BaseCalls, BaseHeap, AllNames, SliceTab>>)
=============================================================================
