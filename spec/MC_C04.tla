------------------------------- MODULE MC_C04 -------------------------------
(* C04: degree / linearity classification never under-reports.  Signature: scalar arithmetic with
   integer, fractional, negative and zero exponents, constants as sub-expressions, vector
   reductions whose elements may be non-polynomial. *)
EXTENDS ApiGen
Q(n, d) == Norm(n, d)
B(lb, ub) == Lit("bounds", <<lb, ub>>, <<2>>)
MC_BaseCalls == <<
    Call("MkVar", 0, 0, "continuous", B(NoneQ, NoneQ), 0, 0, 0, "s"),
    Call("MkVar", 0, 0, "continuous", B(NoneQ, NoneQ), 0, 0, 0, "t"),
    Call("MkVec", 0, 0, "continuous", B(NoneQ, NoneQ), 2, 0, 0, "x"),
    Call("MkVec", 0, 0, "continuous", B(NoneQ, NoneQ), 2, 0, 0, "y"),
    Call("MkPar", 0, 0, "", LitS("float", Q(3, 2)), 1, 0, 0, "p"),
    Call("MkConst", 0, 0, "", LitS("float", Q(2, 1)), 0, 0, 0, "")
  >>
MC_AllNames == {<<"s">>, <<"t">>, <<"x", 0>>, <<"x", 1>>, <<"y", 0>>, <<"y", 1>>}
MC_En == {"SBin", "SBinLit", "SNeg", "Fn", "VFn", "VBin", "VBinLit", "VNeg", "Sum", "Dot", "LinComb", "Norm", "QuadForm", "Index"}
MC_ScalarLits == {LitS("int", Q(2, 1)), LitS("float", Q(1, 2)), LitS("int", Q(-1, 1)), LitS("int", Q(0, 1)),
                  LitS("float", Q(5, 2)), LitS("int", Q(3, 1)), LitS("int", Q(1, 1))}
MC_ScalarLitsSmall == {LitS("int", Q(2, 1)), LitS("float", Q(1, 2)), LitS("int", Q(0, 1))}      \* thorough tier: one call deeper
MC_SOpsSmall == {"+", "*", "**"}
MC_ArrayLits == {Lit("arr", <<Q(2,1), Q(-1,1)>>, <<2>>), Lit("arr", <<Q(2,1), Q(-1,1), Q(1,1), Q(3,1)>>, <<2, 2>>)}
MC_Slices == {}
MC_Indices == {0}
MC_Fns == {"sin", "sqrt"}
MC_SOps == {"+", "-", "*", "/", "**"}
MC_VOps == {"+", "*", "**", "/"}
MC_Senses == {}
MC_ObjCands == {}
MC_Stages == <<>>
MC_FinalEn == {}
MC_SingValues == {}
MC_Want == {"deg"}
MC_NoPR(o) == <<>>
ASSUME PrintT(<<"BASE", BaseCalls, BaseHeap, AllNames, SliceTab>>)
=============================================================================
