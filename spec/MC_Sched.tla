------------------------------- MODULE MC_Sched -------------------------------
(* Every way one solve can go: route x method x strict x solver outcomes (incl. the SLSQP retry)
   x faults.  A history variable records the environment's choices so that each complete
   behaviour can be replayed into the real code through a stubbed / fault-injecting solver seam. *)
EXTENDS Solve
MC_OptSets == {DefaultOpts}
O(i, d, n) == [id |-> i, deg |-> d, nc |-> n]
Cn(i, d, e) == [id |-> i, deg |-> d, eq |-> e, nc |-> FALSE]
MC_MethodsAll == {"auto", "linprog", "highs", "highs-ds", "highs-ipm", "SLSQP", "trust-constr", "L-BFGS-B", "TNC", "COBYLA",
                  "Nelder-Mead", "Powell", "BFGS", "CG", "Newton-CG"}
MC_Objs == {O(3, 2, FALSE), O(1, 1, FALSE), O(5, 1, TRUE)}
MC_ObjsC07 == {O(3, 2, FALSE), O(2, 1, FALSE), O(4, 9, FALSE)}
CONSTANT SchedObjs
MC_Excs == Excs
CONSTANT Senses
VARIABLE sched
Start == /\ obj \in SchedObjs /\ sense \in Senses /\ cons \in {<<>>, <<Cn(11, 1, FALSE)>>} /\ bver = 0 /\ pver = 0
         /\ cVars = None /\ cSolver = None /\ cLP = None /\ cLin = None
         /\ hook = "orig" /\ pc = "idle" /\ call = NoCall /\ res = NoRes /\ fault = "none" /\ out = NoOut
         /\ sched = <<>>
SNext == \/ (\E m \in MC_MethodsAll, st \in BOOLEAN :
                SolveBegin(m, st) /\ sched = <<>> /\ sched' = <<[e |-> "begin", m |-> m, strict |-> st]>>)
         \/ ((Route \/ Vars \/ Gate \/ Fill \/ LazyHess \/ HookSwap \/ Except \/ Finally \/ Post \/ LPReturn) /\ UNCHANGED sched)
         \/ (\E r \in Outcomes : SolverReturns(r) /\ sched' = Append(sched, [e |-> "ret", r |-> r]))
         \/ (\E x \in FaultExcs : SolverRaises(x) /\ sched' = Append(sched, [e |-> "raise", exc |-> x]))
SSpec == Start /\ [][SNext]_<<vars, sched>>
=============================================================================
