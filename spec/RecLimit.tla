------------------------------- MODULE RecLimit -------------------------------
(* The second piece of process-global state around a solve (C20): the recursion limit, raised by the
   public context manager / decorator increased_recursion_limit and restored when the block is left -
   normally, after a FAILED solve, or while an exception from the solver propagates through it.

   Entries nest.  An entry is made either with a fresh context object ("fresh": with increased_recursion_limit(N): ...)
   or through ONE kept object used as a decorator on a routine that calls itself ("shared").  The intended design
   saves the limit to restore PER ENTRY; keeping it in one slot of the object (SavedPerEntry = FALSE) is the
   deviation: a nested entry through the same object overwrites the slot with the already raised limit. *)
EXTENDS Naturals, Sequences, TLC

CONSTANTS SavedPerEntry,     \* intended TRUE
          MaxDepth, MaxOps

VARIABLES limit,     \* 0 = the interpreter's limit before anything was entered, 1 = raised
          stack,     \* open entries, innermost last: [kind, sv] (sv = limit seen at entry)
          slot,      \* the single slot of the shared object (used only when ~SavedPerEntry)
          exc,       \* an exception from a solve is propagating outwards
          hist
vars == <<limit, stack, slot, exc, hist>>

Enter(k) ==
    /\ ~exc /\ Len(stack) < MaxDepth /\ Len(hist) < MaxOps
    /\ stack' = Append(stack, [kind |-> k, sv |-> limit])
    /\ slot' = IF k = "shared" THEN limit ELSE slot
    /\ limit' = 1
    /\ hist' = Append(hist, <<"Enter", k>>) /\ UNCHANGED exc
Exit ==
    /\ stack # <<>> /\ (exc \/ Len(hist) < MaxOps)
    /\ LET top == stack[Len(stack)] IN
       limit' = IF top.kind = "shared" /\ ~SavedPerEntry THEN slot ELSE top.sv
    /\ stack' = SubSeq(stack, 1, Len(stack) - 1)
    /\ exc' = (exc /\ Len(stack) > 1)          \* the harness catches it outside the outermost block
    /\ hist' = Append(hist, <<"Exit", "">>) /\ UNCHANGED slot
\* a solve inside the current nesting: returns OPTIMAL, returns FAILED (a callback raised an Exception), or lets a
\* BaseException through; none of them touches the limit
Solve(o) ==
    /\ ~exc /\ Len(hist) < MaxOps
    /\ exc' = (o = "raises" /\ stack # <<>>)
    /\ hist' = Append(hist, <<"Solve", o>>) /\ UNCHANGED <<limit, stack, slot>>

Init == limit = 0 /\ stack = <<>> /\ slot = 0 /\ exc = FALSE /\ hist = <<>>
Next == (\E k \in {"fresh", "shared"} : Enter(k)) \/ Exit \/ (\E o \in {"ok", "failed", "raises"} : Solve(o))
Spec == Init /\ [][Next]_vars

\* C20: once every block has been left the limit is the one found at the beginning ...
C20_LimitRestored == stack = <<>> => limit = 0
\* ... and inside the blocks it is the raised one
C20_RaisedInside == stack # <<>> => limit = 1
=============================================================================
