------------------------------- MODULE GlobalCaches -------------------------------
(* The process-wide LRU caches (compile cache, gradient cache) shared by every model in a process.

   Two models M and N use leaves with the SAME NAMES (a parameter "p", a variable "x") but are
   different objects with different values.  Interior expression nodes hash by identity; leaves
   compare by name in the code (LeafEq = "name", pinned by the repository's tests).  An artefact
   compiled from a parameter leaf reads THAT object's value, so serving it for another object of
   the same name is cross-talk.  The intended design never puts a bare parameter into the cache
   (ParamBypass).  Capacity is small so that eviction interleavings are explored exhaustively. *)
EXTENDS Naturals, Sequences, FiniteSets, TLC

CONSTANTS LeafEq,        \* "identity" | "name"
          ParamBypass,   \* TRUE: a bare Parameter is compiled without the cache   (intended TRUE)
          Cap,           \* capacity of each LRU
          MaxOps,        \* bound on the history length (model checking)
          DegreePins,    \* TRUE: an entry of the identity-keyed degree memo keeps its expression alive (intended TRUE)
          Acts,          \* enabled groups of actions, subset of {"compile", "life", "buffer"}
          MemoChecksContent  \* TRUE: a memo keyed by the identity of a caller-owned array is valid only for the content it
                             \* was computed from (intended TRUE; the code has no such memo at all)

E(i, k, n, o) == [id |-> i, kind |-> k, name |-> n, owner |-> o]
pM == E(1, "par", "p", "M")   xM == E(2, "var", "x", "M")   nM == E(3, "node", "", "M")
pN == E(4, "par", "p", "N")   xN == E(5, "var", "x", "N")   nN == E(6, "node", "", "N")
Exprs == {pM, xM, nM, pN, xN, nN}
Filler(i) == E(100 + i, "node", "", "F")
\* the symbolic gradient of the node p * x with respect to x is the parameter leaf of the same model
GradOf(e) == IF e = nM THEN pM ELSE pN
VarOf(e)  == IF e.owner = "M" THEN xM ELSE xN

KeyEq(a, b) == IF a.kind = "node" \/ b.kind = "node" THEN a.id = b.id
               ELSE IF LeafEq = "name" THEN a.kind = b.kind /\ a.name = b.name
               ELSE a.id = b.id

VARIABLES gCompile, gGrad, hist, obs, nfill,
          at,            \* object lifetime: address of the (deep) objective of each model, 0 = not built / dropped
          gDeg,          \* degree memo keyed by the identity (address) of the expression
          bufver,        \* content version of a caller-owned NumPy array shared by successive models (updated in place)
          built,         \* which models have a quadratic form over that array
          gSym           \* derived data (Q + Q') remembered for "the last matrix seen": None or the content version it was computed from
vars == <<gCompile, gGrad, hist, obs, nfill, at, gDeg, bufver, built, gSym>>
NoObs == [q |-> 0, served |-> 0, what |-> "none"]

Find(cache, pred(_)) == IF \E i \in 1..Len(cache) : pred(cache[i]) THEN CHOOSE i \in 1..Len(cache) : pred(cache[i]) /\ \A j \in 1..(i - 1) : ~pred(cache[j]) ELSE 0
Touch(cache, i) == <<cache[i]>> \o SubSeq(cache, 1, i - 1) \o SubSeq(cache, i + 1, Len(cache))
Insert(cache, ent) == LET c == <<ent>> \o cache IN IF Len(c) > Cap THEN SubSeq(c, 1, Cap) ELSE c

\* compile_expression(e, ..): which object's value does the returned closure read?
CompileServe(e) ==
    IF ParamBypass /\ e.kind = "par" THEN [cache |-> gCompile, served |-> e]
    ELSE LET i == Find(gCompile, LAMBDA ent : KeyEq(ent.key, e)) IN
         IF i # 0 THEN [cache |-> Touch(gCompile, i), served |-> gCompile[i].built]
         ELSE [cache |-> Insert(gCompile, [key |-> e, built |-> e]), served |-> e]
Compile(e) ==
    /\ Len(hist) < MaxOps
    /\ LET r == CompileServe(e) IN
       /\ gCompile' = r.cache
       /\ obs' = [q |-> e.id, served |-> r.served.id, what |-> "compile"]
    /\ hist' = Append(hist, <<"Compile", e.id>>)
    /\ UNCHANGED <<gGrad, nfill, at, gDeg, bufver, built, gSym>>
\* compile_gradient(node, [x]): gradient (cached on (expr, wrt)), then compile the gradient expression
GradCompile(e) ==
    /\ Len(hist) < MaxOps /\ e.kind = "node" /\ e.owner \in {"M", "N"}
    /\ LET i == Find(gGrad, LAMBDA ent : KeyEq(ent.key, e) /\ KeyEq(ent.wrt, VarOf(e)))
           g == IF i # 0 THEN gGrad[i].result ELSE GradOf(e)
           gc == IF i # 0 THEN Touch(gGrad, i) ELSE Insert(gGrad, [key |-> e, wrt |-> VarOf(e), result |-> GradOf(e)])
           r == CompileServe(g)
       IN /\ gGrad' = gc
          /\ gCompile' = r.cache
          \* the closure must read the parameter of the model that was differentiated
          /\ obs' = [q |-> GradOf(e).id, served |-> r.served.id, what |-> "gradient"]
    /\ hist' = Append(hist, <<"GradCompile", e.id>>)
    /\ UNCHANGED <<nfill, at, gDeg, bufver, built, gSym>>
\* compile_hessian(node, [x, y]): every entry of the symbolic Hessian is compiled through the compile cache;
\* the mixed entry of p * x * y is the parameter leaf
HessCompile(e) ==
    /\ Len(hist) < MaxOps /\ e.kind = "node" /\ e.owner \in {"M", "N"}
    /\ LET r == CompileServe(GradOf(e)) IN
       /\ gCompile' = r.cache
       /\ obs' = [q |-> GradOf(e).id, served |-> r.served.id, what |-> "hessian"]
    /\ hist' = Append(hist, <<"HessCompile", e.id>>)
    /\ UNCHANGED <<gGrad, nfill, at, gDeg, bufver, built, gSym>>
\* unrelated expressions pass through the caches (eviction)
Fill ==
    /\ Len(hist) < MaxOps /\ nfill < Cap + 1
    /\ gCompile' = Insert(gCompile, [key |-> Filler(nfill), built |-> Filler(nfill)])
    /\ gGrad' = Insert(gGrad, [key |-> Filler(nfill), wrt |-> xN, result |-> Filler(nfill)])
    /\ nfill' = nfill + 1 /\ obs' = NoObs
    /\ hist' = Append(hist, <<"Fill", nfill>>)
    /\ UNCHANGED <<at, gDeg, bufver, built, gSym>>

(* ---- object lifetime and the identity-keyed degree memo --------------------------------------
   compute_degree memoises on the identity of the expression.  Identities (addresses) are reused
   once an object is collected, so an identity-keyed memo is sound only while its entry keeps the
   object alive (the code keys on (id(expr), expr): the entry pins the expression).  A model is
   built, classified, dropped; a later model may be allocated at a freed address.  dM has degree 2,
   dN degree 1; ids 7 and 8. *)
Deep == {7, 8}
Addrs == 1..2
Occupied == ({at[o] : o \in Deep} \ {0}) \cup (IF DegreePins THEN {gDeg[i].addr : i \in 1..Len(gDeg)} ELSE {})
Build(o) ==
    /\ Len(hist) < MaxOps /\ at[o] = 0
    /\ \E a \in Addrs \ Occupied : at' = [at EXCEPT ![o] = a]
    /\ obs' = NoObs /\ hist' = Append(hist, <<"Build", o>>)
    /\ UNCHANGED <<gCompile, gGrad, nfill, gDeg, bufver, built, gSym>>
Drop(o) ==
    /\ Len(hist) < MaxOps /\ at[o] # 0
    /\ at' = [at EXCEPT ![o] = 0]
    /\ obs' = NoObs /\ hist' = Append(hist, <<"Drop", o>>)
    /\ UNCHANGED <<gCompile, gGrad, nfill, gDeg, bufver, built, gSym>>
Degree(o) ==
    /\ Len(hist) < MaxOps /\ at[o] # 0
    /\ LET i == Find(gDeg, LAMBDA ent : ent.addr = at[o]) IN
       /\ gDeg' = IF i # 0 THEN Touch(gDeg, i) ELSE Insert(gDeg, [addr |-> at[o], of |-> o])
       /\ obs' = [q |-> o, served |-> IF i # 0 THEN gDeg[i].of ELSE o, what |-> "degree"]
    /\ hist' = Append(hist, <<"Degree", o>>)
    /\ UNCHANGED <<gCompile, gGrad, nfill, at, bufver, built, gSym>>
\* unrelated expressions are classified (eviction from the degree memo; their entries sit at other addresses)
FillDeg ==
    /\ Len(hist) < MaxOps /\ nfill < Cap + 1
    /\ gDeg' = Insert(gDeg, [addr |-> 100 + nfill, of |-> 100 + nfill])
    /\ nfill' = nfill + 1 /\ obs' = NoObs
    /\ hist' = Append(hist, <<"FillDeg", nfill>>)
    /\ UNCHANGED <<gCompile, gGrad, at, bufver, built, gSym>>

(* ---- a caller-owned array shared by successive models --------------------------------------
   Rolling-horizon use: one covariance buffer, refreshed in place (Sigma[:] = new) between models.  A
   QuadraticForm references the live array, so whatever is derived from it must be derived from its
   CURRENT content; remembering derived data "for the last matrix seen" by identity alone is cross-talk
   between the model that was differentiated before the refresh and the one differentiated after. *)
NoMemo == [none |-> TRUE]
\* built[o]: "no" | "fresh" (built from the array's current content, which has not changed since) | "stale" (the caller
\* refreshed the array under a model that references it: what that model denotes is the caller's own aliasing, not judged)
BuildQF(o) ==
    /\ Len(hist) < MaxOps /\ built[o] # "fresh"
    /\ built' = [built EXCEPT ![o] = "fresh"] /\ obs' = NoObs /\ hist' = Append(hist, <<"BuildQF", o>>)
    /\ UNCHANGED <<gCompile, gGrad, nfill, at, gDeg, bufver, gSym>>
Mutate ==
    /\ Len(hist) < MaxOps /\ \E o \in DOMAIN built : built[o] = "fresh"
    /\ bufver' = 1 - bufver /\ obs' = NoObs /\ hist' = Append(hist, <<"Mutate", 0>>)
    /\ built' = [o \in DOMAIN built |-> IF built[o] = "fresh" THEN "stale" ELSE built[o]]
    /\ UNCHANGED <<gCompile, gGrad, nfill, at, gDeg, gSym>>
GradQF(o) ==
    /\ Len(hist) < MaxOps /\ built[o] # "no"
    /\ LET hit == gSym # NoMemo /\ (MemoChecksContent => gSym.ver = bufver)
           used == IF hit THEN gSym.ver ELSE bufver IN
       /\ gSym' = [ver |-> used]
       /\ obs' = [q |-> bufver, served |-> used, what |-> IF built[o] = "fresh" THEN "qfgrad" ELSE "qfgrad-stale"]
    /\ hist' = Append(hist, <<"GradQF", o>>)
    /\ UNCHANGED <<gCompile, gGrad, nfill, at, gDeg, bufver, built>>

Init == gCompile = <<>> /\ gGrad = <<>> /\ hist = <<>> /\ obs = NoObs /\ nfill = 0
        /\ at = [o \in Deep |-> 0] /\ gDeg = <<>>
        /\ bufver = 0 /\ built = [o \in {"M", "N"} |-> "no"] /\ gSym = NoMemo
Next == \/ "compile" \in Acts /\ ((\E e \in Exprs : Compile(e)) \/ (\E e \in {nM, nN} : GradCompile(e) \/ HessCompile(e)) \/ Fill)
        \/ "life" \in Acts /\ ((\E o \in Deep : Build(o) \/ Drop(o) \/ Degree(o)) \/ FillDeg)
        \/ "buffer" \in Acts /\ ((\E o \in {"M", "N"} : BuildQF(o) \/ GradQF(o)) \/ Mutate)
Spec == Init /\ [][Next]_vars

ById(i) == CHOOSE e \in Exprs : e.id = i
\* C14: what is served for a query was built from the queried object whenever the artefact depends on
\* the object (parameters read their own value; variable leaves only contribute an index)
C14_NoCrossTalk == (obs.what \in {"compile", "gradient", "hessian"} /\ obs.q <= 6 /\ ById(obs.q).kind # "var") => obs.served = obs.q
\* the degree reported for an expression is the degree of that expression, never a dead object's
C14_DegreeOwn == obs.what = "degree" => obs.served = obs.q
\* derivatives of a form built over the shared array's current content are computed from that content
C14_BufferCurrent == obs.what = "qfgrad" => obs.served = obs.q
C14_Bounded == Len(gCompile) <= Cap /\ Len(gGrad) <= Cap /\ Len(gDeg) <= Cap
=============================================================================
