------------------------------- MODULE Solve -------------------------------
(* A Problem and its solves as a state machine.

   Model:   objective (a record [id, deg, nc]: identity, polynomial degree class 1 | 2 | 9 (higher or
            non-polynomial), whether a non-continuous variable occurs), sense, constraints (records
            [id, deg, eq, nc]), a bounds version and a parameter version (both mutable from outside the
            Problem).
   Caches:  the four per-problem caches of problem.py (+ the lazily inserted Hessian), each None or a
            snapshot of exactly the model components it was computed from.
   Solve:   not atomic - route -> variables -> integrality gate -> cache fill -> (lazy Hessian) -> hook swap
            -> solver (environment: an outcome, or an exception at the entry / inside a callback)
            -> except / finally (hook restore) -> feasibility post-check -> SLSQP retry -> status -> return.

   The spec states the INTENDED behaviour.  Every place where an implementation can deviate is a
   Boolean CONSTANT (intended value in Solve.cfg; the deviating values are the Mut_*.cfg used by
   selftest to show that the invariants are not vacuous). *)
EXTENDS Naturals, Sequences, FiniteSets, TLC

CONSTANTS
    ObjRecs,            \* objective records offered to the model checker
    ConRecs,            \* constraint records offered to the model checker
    MaxCons,            \* bound on the number of constraints (model checking only)
    Methods,            \* methods offered to the model checker
    OptSets,            \* solve options offered to the model checker (records like DefaultOpts)
    FaultExcs,          \* exception classes the environment may raise inside the solver (model checking)
    OnlySuccess,        \* TRUE: the environment only returns "converged at a feasible point" (history graphs)
    EditInvalidates,    \* minimize / maximize / subject_to drop every derived cache      (intended TRUE)
    BoundsLive,         \* bounds are read when a solve starts, not from a snapshot        (intended TRUE)
    ParamsLive,         \* parameters are read when a callable runs, never snapshotted     (intended TRUE)
    GateBeforeSolver,   \* integrality gate precedes every solver entry                   (intended TRUE)
    RestoreInFinally,   \* the warning hook is restored on every exit path                 (intended TRUE)
    FeasCheckAlways,    \* OPTIMAL requires the feasibility post-check on every branch     (intended TRUE)
    FaultKeepsCaches    \* a fault leaves the caches as they were                          (intended TRUE)

None == [none |-> TRUE]
IsNone(x) == x = None

LPMethods      == {"linprog", "highs", "highs-ds", "highs-ipm"}
HessianMethods == {"trust-constr", "Newton-CG", "dogleg", "trust-ncg", "trust-exact"}
BoundsMethods  == {"L-BFGS-B", "TNC", "SLSQP", "Powell", "trust-constr", "Nelder-Mead"}
DerivFree      == {"Nelder-Mead", "Powell", "COBYLA"}
Msgs           == {"ok", "maxiter", "infeasible", "pdd", "other"}
XClasses       == {"feas", "viol_con", "viol_bnd"}
Excs           == {"ValueError", "FloatingPointError", "MemoryError", "KeyboardInterrupt"}
IsException(e) == e # "KeyboardInterrupt"          \* subclasses of Exception are caught; BaseException propagates
StageExcs      == {"StageError"}      \* model-checking stand-in; traces carry the real class name
Statuses       == {"optimal", "infeasible", "unbounded", "max_iterations", "failed"}

VARIABLES obj, sense, cons, bver, pver,           \* the model
          cVars, cSolver, cLP, cLin,              \* per-problem caches (cSolver.hess: lazily inserted Hessian)
          hook,                                   \* warnings.showwarning: "orig" | "handler"
          pc, call, res, fault, out               \* a solve in progress and the last outcome
vars == <<obj, sense, cons, bver, pver, cVars, cSolver, cLP, cLin, hook, pc, call, res, fault, out>>
modelVars == <<obj, sense, cons, bver, pver>>
cacheVars == <<cVars, cSolver, cLP, cLin>>

NoObj  == [id |-> 0, deg |-> 0, nc |-> FALSE]
HasObj == obj.id # 0

(* ---------------------------------------------------------------- what each artefact is computed from *)
Structure   == [obj |-> obj, sense |-> sense, cons |-> cons]
SnapVars    == [obj |-> obj.id, cons |-> [i \in 1..Len(cons) |-> cons[i].id]]
SnapLin     == SnapVars
SnapSolver  == [s |-> Structure, b |-> IF BoundsLive THEN 0 ELSE bver, p |-> IF ParamsLive THEN 0 ELSE pver]
SnapLP      == SnapSolver
\* what a solver must be handed for the current model
FreshInputs == [s |-> Structure, b |-> bver, p |-> pver]
\* what it is handed when the artefact `c` (a solver / LP snapshot) is used now
InputsFrom(c) == [s |-> c.s, b |-> IF BoundsLive THEN bver ELSE c.b, p |-> IF ParamsLive THEN pver ELSE c.p]

(* ---------------------------------------------------------------- model attributes driving control flow *)
MaxConDeg == IF cons = <<>> THEN 0 ELSE CHOOSE d \in {cons[i].deg : i \in 1..Len(cons)} : \A i \in 1..Len(cons) : cons[i].deg <= d
ModelLinear(o, cs) == o.deg <= 1 /\ \A i \in 1..Len(cs) : cs[i].deg <= 1
NonContinuous == obj.nc \/ \E i \in 1..Len(cons) : cons[i].nc
\* the auto-method decision tree of Problem._auto_select_method
AutoMethod == IF cons = <<>> THEN "L-BFGS-B"
              ELSE IF obj.deg > 2 THEN "trust-constr"
              ELSE IF MaxConDeg > 2 THEN "trust-constr"
              ELSE "SLSQP"

(* ---------------------------------------------------------------- edits *)
Invalidate == /\ cVars' = None /\ cSolver' = None /\ cLP' = None /\ cLin' = None
KeepCaches == UNCHANGED cacheVars
Idle == pc = "idle"
SetObjective(o, s) ==
    /\ Idle /\ obj' = o /\ sense' = s /\ UNCHANGED <<cons, bver, pver>>
    /\ (IF EditInvalidates THEN Invalidate ELSE KeepCaches)
    /\ UNCHANGED <<hook, pc, call, res, fault, out>>
SubjectTo(cs) ==                  \* one constraint or a list
    /\ Idle /\ cons' = cons \o cs /\ UNCHANGED <<obj, sense, bver, pver>>
    /\ (IF EditInvalidates THEN Invalidate ELSE KeepCaches)
    /\ UNCHANGED <<hook, pc, call, res, fault, out>>
SetBound ==                       \* v.lb / v.ub := ...  (the Problem is not told)
    /\ Idle /\ bver' = 1 - bver /\ UNCHANGED <<obj, sense, cons, pver>> /\ KeepCaches
    /\ UNCHANGED <<hook, pc, call, res, fault, out>>
SetParam ==                       \* p.set(v)
    /\ Idle /\ pver' = 1 - pver /\ UNCHANGED <<obj, sense, cons, bver>> /\ KeepCaches
    /\ UNCHANGED <<hook, pc, call, res, fault, out>>
ReadVars ==                       \* problem.variables / n_variables / get_bounds()
    /\ Idle /\ cVars' = (IF IsNone(cVars) THEN SnapVars ELSE cVars)
    /\ UNCHANGED <<cSolver, cLP, cLin>> /\ UNCHANGED modelVars
    /\ UNCHANGED <<hook, pc, call, res, fault, out>>

(* ---------------------------------------------------------------- a solve, step by step *)
\* solve(method, strict, x0=, tol=, maxiter=, use_hessian=): whether each optional argument was given
\* (use_hessian: its value); the arguments are handed to every solver entry of the call, the retry included
DefaultOpts == [useHess |-> TRUE, x0 |-> FALSE, tol |-> FALSE, maxiter |-> FALSE]
NoCall == [m |-> "", strict |-> FALSE, route |-> "", method |-> "", retried |-> FALSE, warned |-> 0,
           entries |-> 0, used |-> None, rebuilt |-> FALSE, opts |-> DefaultOpts]
NoRes  == [success |-> FALSE, msg |-> "other", x |-> "feas", lp |-> 9]
NoOut  == [kind |-> "none"]
Raise(exc) == /\ out' = [kind |-> "raised", exc |-> exc] /\ pc' = "done"

SolveBeginOpts(m, strict, o) ==
    /\ Idle
    /\ call' = [NoCall EXCEPT !.m = m, !.strict = strict, !.opts = o]
    /\ res' = NoRes /\ fault' = "none"
    /\ IF ~HasObj THEN Raise("NoObjectiveError") ELSE (pc' = "route" /\ out' = NoOut)
    /\ UNCHANGED modelVars /\ KeepCaches /\ UNCHANGED hook

SolveBegin(m, strict) == SolveBeginOpts(m, strict, DefaultOpts)

\* auto: the linearity decision is cached; explicit LP methods re-check linearity without the cache
Route ==
    /\ pc = "route"
    /\ LET linNow == ModelLinear(obj, cons) IN
       IF call.m = "auto" THEN
            /\ cLin' = (IF IsNone(cLin) THEN SnapLin ELSE cLin)
            /\ call' = [call EXCEPT !.route = IF linNow THEN "lp" ELSE "nlp",
                                    !.method = IF linNow THEN "highs" ELSE AutoMethod]
            /\ pc' = "vars" /\ out' = out
       ELSE IF call.m \in LPMethods THEN
            /\ cLin' = cLin
            /\ IF linNow THEN (call' = [call EXCEPT !.route = "lp", !.method = IF call.m = "linprog" THEN "highs" ELSE call.m]
                               /\ pc' = "vars" /\ out' = out)
               ELSE (call' = call /\ Raise("NonLinearError"))
       ELSE /\ cLin' = cLin
            /\ call' = [call EXCEPT !.route = "nlp", !.method = call.m]
            /\ pc' = "vars" /\ out' = out
    /\ UNCHANGED <<cVars, cSolver, cLP>> /\ UNCHANGED modelVars /\ UNCHANGED <<hook, res, fault>>

Vars ==
    /\ pc = "vars" /\ cVars' = (IF IsNone(cVars) THEN SnapVars ELSE cVars)
    /\ pc' = "gate" /\ UNCHANGED <<cSolver, cLP, cLin>> /\ UNCHANGED modelVars /\ UNCHANGED <<hook, call, res, fault, out>>

\* integrality gate: strict raises before any solver runs; otherwise one warning naming the variables
Gate ==
    /\ pc = "gate"
    /\ IF NonContinuous /\ GateBeforeSolver THEN
            IF call.strict THEN (call' = call /\ Raise("IntegerVariableError"))
            ELSE (call' = [call EXCEPT !.warned = @ + 1] /\ pc' = "fill" /\ out' = out)
       ELSE (call' = call /\ pc' = "fill" /\ out' = out)
    /\ UNCHANGED modelVars /\ KeepCaches /\ UNCHANGED <<hook, res, fault>>

Fill ==
    /\ pc = "fill"
    /\ IF call.route = "lp"
       THEN /\ cLP' = (IF IsNone(cLP) THEN SnapLP ELSE cLP)
            /\ cSolver' = cSolver
            /\ call' = [call EXCEPT !.rebuilt = IsNone(cLP)]
            /\ pc' = "solver"
       ELSE /\ cSolver' = (IF IsNone(cSolver) THEN [snap |-> SnapSolver, hess |-> FALSE] ELSE cSolver)
            /\ cLP' = cLP
            /\ call' = [call EXCEPT !.rebuilt = IsNone(cSolver)]
            /\ pc' = "hess"
    /\ UNCHANGED <<cVars, cLin>> /\ UNCHANGED modelVars /\ UNCHANGED <<hook, res, fault, out>>

\* the solver is handed a Hessian iff the method uses one and the caller did not switch it off
HandsHessian == call.method \in HessianMethods /\ call.opts.useHess
\* the Hessian is compiled lazily, the first time a method that uses it runs on this cache
LazyHess ==
    /\ pc = "hess"
    /\ cSolver' = [cSolver EXCEPT !.hess = @ \/ HandsHessian]
    /\ pc' = "swap"
    /\ UNCHANGED <<cVars, cLP, cLin>> /\ UNCHANGED modelVars /\ UNCHANGED <<hook, call, res, fault, out>>

\* building an artefact (variable discovery, compilation, LP extraction) may itself fail: the exception
\* reaches the caller (possibly wrapped), no solver is entered, nothing global has been touched yet
StageRaises(e) ==
    /\ pc \in {"vars", "fill", "hess"} /\ Raise(e)
    /\ UNCHANGED modelVars /\ KeepCaches /\ UNCHANGED <<hook, call, res, fault>>

HookSwap ==
    /\ pc = "swap" /\ hook' = "handler" /\ pc' = "solver"
    /\ UNCHANGED modelVars /\ KeepCaches /\ UNCHANGED <<call, res, fault, out>>

\* entering the solver: record what it is handed
SolverInputs == IF call.route = "lp" THEN InputsFrom(cLP) ELSE InputsFrom(cSolver.snap)
\* environment: the solver returns an outcome ...
SolverReturns(r) ==
    /\ pc = "solver"
    /\ call' = [call EXCEPT !.entries = @ + 1, !.used = SolverInputs]
    /\ res' = r /\ fault' = "none"
    /\ pc' = IF call.route = "lp" THEN "lpstatus" ELSE "finally"
    /\ UNCHANGED modelVars /\ KeepCaches /\ UNCHANGED <<hook, out>>
\* ... or the entry / a callback raises
SolverRaises(e) ==
    /\ pc = "solver"
    /\ call' = [call EXCEPT !.entries = @ + 1, !.used = SolverInputs]
    /\ fault' = e /\ res' = res
    /\ pc' = IF IsException(e) THEN "except" ELSE "finally"
    /\ UNCHANGED modelVars /\ UNCHANGED <<hook, out>>
    /\ (IF FaultKeepsCaches THEN KeepCaches
        ELSE cSolver' = None /\ cLP' = None /\ UNCHANGED <<cVars, cLin>>)

Except ==                          \* except Exception: FAILED solution (hook restored here as well)
    /\ pc = "except"
    /\ hook' = (IF call.route = "nlp" THEN "orig" ELSE hook)
    /\ out' = [kind |-> "solution", status |-> "failed", x |-> "none"]
    /\ pc' = "finally"
    /\ UNCHANGED modelVars /\ KeepCaches /\ UNCHANGED <<call, res, fault>>

Finally ==
    /\ pc = "finally"
    /\ hook' = (IF RestoreInFinally THEN "orig" ELSE hook)
    /\ IF fault = "none" THEN (pc' = "post" /\ out' = out /\ fault' = fault)
       ELSE IF IsException(fault) THEN (pc' = "done" /\ out' = out /\ fault' = "none")
       ELSE (Raise(fault) /\ fault' = "none")
    /\ UNCHANGED modelVars /\ KeepCaches /\ UNCHANGED <<call, res>>

\* feasibility post-check of the returned point (constraints and bounds)
Violated == res.x # "feas"
Checked  == IF FeasCheckAlways THEN Violated ELSE (res.success /\ res.x = "viol_con")
\* the status relation: exactly what C06 / C09 demand, nothing about the other statuses
Allowed(r) == IF r.x # "feas" THEN (IF FeasCheckAlways THEN Statuses \ {"optimal"}
                                     ELSE IF r.success /\ r.x = "viol_con" THEN Statuses \ {"optimal"} ELSE Statuses)
              ELSE IF r.success THEN {"optimal"}
              ELSE Statuses
Post ==
    /\ pc = "post"
    /\ \/ \* SLSQP claimed success at an infeasible point: it may be retried with trust-constr (a recursive solve)
          /\ res.success /\ res.x # "feas" /\ call.method = "SLSQP" /\ ~call.retried
          /\ call' = [call EXCEPT !.method = "trust-constr", !.retried = TRUE]
          /\ pc' = "vars" /\ out' = out
       \/ /\ \E st \in Allowed(res) : out' = [kind |-> "solution", status |-> st, x |-> res.x]
          /\ pc' = "done" /\ call' = call
    /\ UNCHANGED modelVars /\ KeepCaches /\ UNCHANGED <<hook, res, fault>>

\* LP route: status mapping is exact (C08)
LPStatus(code) == CASE code = 0 -> {"optimal"} [] code = 2 -> {"infeasible"} [] code = 3 -> {"unbounded"}
                    [] code = 1 -> {"max_iterations"} [] OTHER -> {"failed"}
LPReturn ==
    /\ pc = "lpstatus"
    /\ \E st \in (IF res.x # "feas" THEN LPStatus(res.lp) \ {"optimal"} ELSE LPStatus(res.lp)) :
            out' = [kind |-> "solution", status |-> st, x |-> res.x]
    /\ pc' = "done"
    /\ UNCHANGED modelVars /\ KeepCaches /\ UNCHANGED <<hook, call, res, fault>>
\* the call returns (or the exception reaches the caller): the solve's locals are gone
Return ==
    /\ pc = "done" /\ pc' = "idle" /\ call' = NoCall /\ res' = NoRes /\ fault' = "none" /\ out' = NoOut
    /\ UNCHANGED modelVars /\ KeepCaches /\ UNCHANGED hook
\* LP route exceptions: Exception -> FAILED, BaseException propagates (no hook involved)
LPExcept == /\ pc = "except" /\ call.route = "lp" /\ FALSE      \* folded into Except / Finally above

NlpOutcomes == {r \in [success : BOOLEAN, msg : Msgs, x : XClasses, lp : {9}] :
                    /\ (r.success <=> r.msg = "ok")
                    /\ (cons = <<>> => r.x # "viol_con")}
LpOutcomes  == {r \in [success : BOOLEAN, msg : {"ok"}, x : XClasses, lp : 0..4] :
                    /\ (r.success <=> r.lp = 0)
                    /\ (r.success => r.x = "feas")               \* HiGHS success is trusted (level_note)
                    /\ (cons = <<>> => r.x # "viol_con")}
Outcomes == LET all == IF call.route = "lp" THEN LpOutcomes ELSE NlpOutcomes
            IN IF OnlySuccess THEN {r \in all : r.success /\ r.x = "feas"} ELSE all

\* named so that TLC's labelled state graph carries the arguments (the harness replays the graph's edges)
SubjectTo1(c) == Len(cons) < MaxCons /\ SubjectTo(<<c>>)
SubjectTo2(c, d) == Len(cons) + 1 < MaxCons /\ c.id < d.id /\ SubjectTo(<<c, d>>)

Next ==
    \/ \E o \in ObjRecs, s \in {"minimize", "maximize"} : SetObjective(o, s)
    \/ \E c \in ConRecs : SubjectTo1(c)
    \/ \E c \in ConRecs, d \in ConRecs : SubjectTo2(c, d)
    \/ SetBound \/ SetParam \/ ReadVars
    \/ \E m \in Methods, st \in BOOLEAN : SolveBegin(m, st)
    \/ \E m \in Methods, st \in BOOLEAN, o \in OptSets \ {DefaultOpts} : SolveBeginOpts(m, st, o)
    \/ Route \/ Vars \/ Gate \/ Fill \/ LazyHess \/ HookSwap
    \/ \E r \in Outcomes : SolverReturns(r)
    \/ \E e \in FaultExcs : SolverRaises(e)
    \/ Except \/ Finally \/ Post \/ LPReturn \/ Return
    \/ (~OnlySuccess /\ \E e \in StageExcs : StageRaises(e))

Init == /\ obj = NoObj /\ sense = "minimize" /\ cons = <<>> /\ bver = 0 /\ pver = 0
        /\ cVars = None /\ cSolver = None /\ cLP = None /\ cLin = None
        /\ hook = "orig" /\ pc = "idle" /\ call = NoCall /\ res = NoRes /\ fault = "none" /\ out = NoOut
Spec == Init /\ [][Next]_vars

(* ================================================================ properties *)
\* C13: every cache that is filled was computed from the current model
C13_CachesCoherent ==
    /\ ~IsNone(cVars)   => cVars = SnapVars
    /\ ~IsNone(cLin)    => cLin = SnapLin
    /\ ~IsNone(cSolver) => cSolver.snap = SnapSolver
    /\ ~IsNone(cLP)     => cLP = SnapLP
\* C13 / C12: whenever a solver has been entered it was handed the current objective, sense, constraints,
\* bounds and parameter values
C13_SolveFresh == (~Idle /\ call.entries > 0) => call.used = FreshInputs
\* C12: no artefact remembers a parameter value
C12_NoFrozenParam == /\ ~IsNone(cSolver) => cSolver.snap.p = 0
                     /\ ~IsNone(cLP) => cLP.p = 0
\* C18: a solver is entered on a model with non-continuous variables only after a warning, never under strict
C18_NoSilentRelax == (~Idle /\ call.entries > 0 /\ NonContinuous) => (~call.strict /\ call.warned > 0)
C18_StrictRaisesFirst == (pc = "done" /\ out.kind = "raised" /\ out.exc = "IntegerVariableError") => call.entries = 0
\* C06: OPTIMAL only at a feasible point
C06_OptimalFeasible == (pc = "done" /\ out.kind = "solution" /\ out.status = "optimal") => out.x = "feas"
\* C20: process-global state is restored whenever no solve is in progress
C20_GlobalsRestored == pc \in {"idle", "done"} => hook = "orig"
\* C20: a fault leaves the caches coherent (so the next solve is a fresh one) - part of C13_CachesCoherent;
\*      additionally a caught fault returns FAILED and an uncaught one propagates
C20_FaultOutcome == (pc = "done" /\ call.entries > 0 /\ out.kind = "raised" /\ out.exc \in Excs) => ~IsException(out.exc)
C20_FaultKeepsCaches == [][(pc = "solver" /\ fault' # "none") => UNCHANGED cacheVars]_vars
TypeOK == /\ pc \in {"idle", "route", "vars", "gate", "fill", "hess", "swap", "solver", "except", "finally", "post", "lpstatus", "done"}
          /\ hook \in {"orig", "handler"} /\ bver \in {0, 1} /\ pver \in {0, 1}
=============================================================================
