SPECIFICATION Spec
CONSTANTS
  SavedPerEntry = TRUE
  MaxDepth = 3
  MaxOps = 7
INVARIANT C20_LimitRestored
INVARIANT C20_RaisedInside
CHECK_DEADLOCK FALSE
