------------------------------- MODULE MC_C05 -------------------------------
(* C05: the LP optyx extracts is the model the user wrote.  Linear spellings: scalar sums, x.sum(),
   c @ x, c @ (x + k), (a*x + b)/k, (s + k)**1, (2+3)*s, negation, slices (reversed / strided),
   three senses, reflected comparisons, bounds None / 0 / finite. *)
EXTENDS Analysis
Q(n, d) == Norm(n, d)
B(lb, ub) == Lit("bounds", <<lb, ub>>, <<2>>)
MC_Code == [s |-> <<115>>, t |-> <<116>>, x |-> <<120>>]
MC_BaseCalls == <<
    Call("MkVar", 0, 0, "continuous", B(Q(0,1), NoneQ), 0, 0, 0, "s"),
    Call("MkVar", 0, 0, "integer", B(NoneQ, Q(7,2)), 0, 0, 0, "t"),    \* relaxed by the LP route: its declared (non-integral) bounds are the LP bounds
    Call("MkVec", 0, 0, "continuous", B(Q(-1,1), Q(5,1)), 3, 0, 0, "x"),      \* two-sided: problems over x alone are bounded LPs (verdict and optimum are informative)
    Call("MkConst", 0, 0, "", LitS("int", Q(2, 1)), 0, 0, 0, ""),
    Call("MkConst", 0, 0, "", LitS("float", Q(3, 1)), 0, 0, 0, ""),
    Call("SBin", 4, 5, "+", NoLit, 0, 0, 0, ""),
    Call("Slice", 3, 0, "", NoLit, NoneI, NoneI, -1, ""),
    Call("Slice", 3, 0, "", NoLit, 1, 3, NoneI, ""),
    Call("Slice", 3, 0, "", NoLit, NoneI, NoneI, 2, ""),
    Call("SBin", 1, 2, "+", NoLit, 0, 0, 0, ""),
    Call("VBinLit", 3, 0, "+", LitS("int", Q(1, 1)), 0, 0, 0, ""),
    Call("SBinLit", 1, 0, "+", LitS("int", Q(10, 1)), 0, 0, 0, ""),
    Call("Sum", 3, 0, "", NoLit, 0, 0, 0, ""),
    Call("LinComb", 3, 0, "", Lit("arr", <<Q(2,1), Q(1,1), Q(-3,1)>>, <<3>>), 0, 0, 0, "")
  >>
MC_AllNames == {<<"s">>, <<"t">>, <<"x", 0>>, <<"x", 1>>, <<"x", 2>>}
MC_En == {"Sum", "LinComb", "SBin", "SBinLit", "SNeg", "VBinLit", "VNeg", "Index", "CmpLit", "Cmp", "Problem"}
MC_EnMax == MC_En \cup {"Maximize"}
MC_Exprs == {"Sum", "LinComb", "SBin", "SBinLit", "SNeg", "VBinLit", "VNeg", "Index"}
MC_ObjCands == {2, 10, 13, 14}      \* t, s + t, x.sum(), c @ x
MC_ObjCandsQ == {10, 14}           \* quick tier: one scalar objective, and c @ x (every element of x, distinct coefficients: not invariant under relabelling)
MC_Stages == << MC_Exprs, {"CmpLit", "Cmp"}, {"Problem"} >>
MC_StagesDeep == << MC_Exprs, MC_Exprs, {"CmpLit", "Cmp"}, {"Problem"} >>
MC_FinalEn == {}
MC_ScalarLits == {LitS("float", Q(-1, 2)), LitS("int", Q(1, 1))}
MC_ScalarLits3 == MC_ScalarLits \cup {LitS("int", Q(10, 1))}
MC_ArrayLits == {Lit("arr", <<Q(1,1), Q(-2,1), Q(3,1)>>, <<3>>), Lit("arr", <<Q(2,1), Q(5,1)>>, <<2>>)}
MC_Slices == {}
MC_Indices == {0, 2}
MC_Fns == {}
MC_SOps == {"+", "-", "*", "/", "**"}
MC_VOps == {"+", "*", "/", "-"}
MC_Senses == {"<=", ">=", "=="}
MC_SingValues == {}
MC_Want == {}
MC_NoPR(o) == <<>>
ASSUME PrintT(<<"BASE", BaseCalls, BaseHeap, AllNames, SliceTab>>)
ASSUME PrintT(<<"CODE", [k \in DOMAIN MC_Code |-> MC_Code[k]]>>)

(* C05 on the spec itself: the LP data denote the model at every point of a grid that contains
   n + 1 affinely independent points (sufficient for an affine identity). *)
Grid == {<<0, 0, 0, 0, 0>>, <<1, 0, 0, 0, 0>>, <<0, 1, 0, 0, 0>>, <<0, 0, 1, 0, 0>>, <<0, 0, 0, 1, 0>>, <<0, 0, 0, 0, 1>>, <<2, -1, 3, 1, -2>>}
EnvOfGrid(vs, g) == [i \in 1..Len(vs) |-> R(g[i])]
DotRow(r, x) == FoldSet(LAMBDA i, acc : RAdd(acc, RMul(r[i], x[i])), RZero, 1..Len(r))
TermAt(t, vs, x) == PEval(AffPoly(t), [n \in {vs[i] : i \in 1..Len(vs)} |-> x[CHOOSE i \in 1..Len(vs) : vs[i] = n]])
C05_LPDenotes ==
    (NCalls > 0 /\ Top.kind = "PR" /\ IsLP(Top)) =>
      LET vs == ProblemVars(Top)  lp == LP(Top) IN
      \A g \in Grid :
        LET x == EnvOfGrid(vs, g) IN
        /\ RAdd(DotRow(lp.c, x), lp.c0) = TermAt(Top.obj, vs, x)
        /\ \A k \in 1..Len(Top.cons) :
             LET cn == Top.cons[k]
                 nUb == Len(SelectSeq(SubSeq([j \in 1..Len(Top.cons) |-> Top.cons[j].sense], 1, k), LAMBDA sn : sn \in {"<=", ">="}))
                 nEq == Len(SelectSeq(SubSeq([j \in 1..Len(Top.cons) |-> Top.cons[j].sense], 1, k), LAMBDA sn : sn = "=="))
                 v == TermAt(cn.den, vs, x) IN
             IF cn.sense = "<=" THEN RSub(DotRow(lp.ub[nUb].a, x), lp.ub[nUb].b) = v
             ELSE IF cn.sense = ">=" THEN RSub(DotRow(lp.ub[nUb].a, x), lp.ub[nUb].b) = RNeg(v)
             ELSE RSub(DotRow(lp.eq[nEq].a, x), lp.eq[nEq].b) = v
=============================================================================
