------------------------------- MODULE MC_C10 -------------------------------
(* C10: constraints mean the relation written (every operand-kind pair, three senses, reflected
   comparisons), also in the functions and Jacobians handed to the nonlinear solver. *)
EXTENDS ApiGen
Q(n, d) == Norm(n, d)
B(lb, ub) == Lit("bounds", <<lb, ub>>, <<2>>)
MC_BaseCalls == <<
    Call("MkVar", 0, 0, "continuous", B(NoneQ, NoneQ), 0, 0, 0, "s"),
    Call("MkVar", 0, 0, "continuous", B(NoneQ, NoneQ), 0, 0, 0, "t"),
    Call("MkVec", 0, 0, "continuous", B(NoneQ, NoneQ), 3, 0, 0, "x"),
    Call("MkVec", 0, 0, "continuous", B(NoneQ, NoneQ), 3, 0, 0, "y"),
    Call("MkVec", 0, 0, "continuous", B(NoneQ, NoneQ), 2, 0, 0, "z"),
    Call("MkPar", 0, 0, "", LitS("float", Q(3, 2)), 1, 0, 0, "p"),
    \* scalar nodes with a vectorised Jacobian row: "budget - cost @ x >= 0" is written on top of them
    Call("Sum", 3, 0, "", NoLit, 0, 0, 0, ""),
    Call("LinComb", 3, 0, "", Lit("arr", <<Q(1,1), Q(-2,1), Q(3,1)>>, <<3>>), 0, 0, 0, ""),
    Call("Dot", 3, 4, "", NoLit, 0, 0, 0, "")
  >>
MC_AllNames == {<<"s">>, <<"t">>, <<"x", 0>>, <<"x", 1>>, <<"x", 2>>, <<"y", 0>>, <<"y", 1>>, <<"y", 2>>, <<"z", 0>>, <<"z", 1>>}
MC_En == {"Cmp", "CmpLit", "VBinLit", "SBinLit", "SRBinLit", "SBin", "Fn", "Slice"}
MC_ScalarLits == {LitS("int", Q(2, 1)), LitS("float", Q(-5, 2)), LitS("bool", Q(1, 1)), LitS("npf64", Q(3, 1)),
                  LitS("npi64", Q(2, 1)), LitS("npf32", Q(1, 2)), LitS("npu8", Q(3, 1)), LitS("npf16", Q(2048, 1))}
MC_ArrayLits == {Lit("arr", <<Q(1,1), Q(-2,1), Q(3,1)>>, <<3>>), Lit("arr", <<Q(4,1), Q(-1,1)>>, <<2>>),
                 Lit("list", <<Q(1,2), Q(2,1), Q(-3,1)>>, <<3>>), Lit("arri", <<Q(2,1), Q(5,1), Q(0,1)>>, <<3>>),
                 Lit("arr", <<Q(1,1), Q(2,1), Q(3,1), Q(4,1), Q(5,1), Q(6,1)>>, <<2, 3>>)}
MC_ScalarLitsSmall == {LitS("int", Q(2, 1)), LitS("npf64", Q(3, 1))}      \* thorough tier: one call deeper
MC_ArrayLitsSmall == {Lit("arr", <<Q(1,1), Q(-2,1), Q(3,1)>>, <<3>>)}
MC_SensesSmall == {"<=", "=="}
MC_Slices == { <<0, 2, NoneI>>, <<NoneI, NoneI, -1>> }
MC_Indices == {}
MC_Fns == {"exp"}
MC_SOps == {"*", "-"}
MC_VOps == {"*", "-"}
MC_Senses == {"<=", ">=", "=="}
MC_ObjCands == {}
MC_Stages == <<>>
MC_FinalEn == {}
MC_SingValues == {}
MC_Want == {}
MC_NoPR(o) == <<>>
ASSUME PrintT(<<"BASE", BaseCalls, BaseHeap, AllNames>>)
=============================================================================
