------------------------------- MODULE Api -------------------------------
(* The modelling DSL of optyx as a state machine.

   State: a heap of typed objects built by public API calls, in creation order.  `Apply(call, heap)`
   is the semantics of one API call: typing and shape rules (including which calls must raise) and
   the denotation of the result as scalar terms over named variables.  `Next` enumerates calls.
   The same `Apply` is used by the enumeration (MC_*.tla), by the simulate configs and by the
   oracle service that re-executes programs recorded from Python drivers.

   Object kinds
     S   scalar expression                     den  : Term
     V   VectorVariable (or a slice / row / column / diagonal view)   names : Seq(Name)
     E   VectorExpression                      dens : Seq(Term)
     EP  ElementwisePower  (VectorVariable ** k)   dens : Seq(Term)
     EU  ElementwiseUnary  (f(VectorVariable))     dens : Seq(Term)
     M   MatrixVariable view                   names : Seq(Seq(Name)), sym : BOOLEAN
     ME  MatrixExpression                      dens : Seq(Seq(Term))
     C   Constraint                            den : Term (lhs - rhs), sense
     CL  list of constraints                   cons : Seq([den, sense])
     P   Parameter / VP VectorParameter
     X   the call raised;  why = "must" (shape / index errors the properties demand)
   Every non-X object also carries  may : BOOLEAN  -- TRUE when the operand combination is not a
   documented one: raising is then acceptable, but if the call returns, the result must still
   denote what is recorded here. *)
EXTENDS Diff, SequencesExt

CONSTANTS MaxCalls,      \* bound on enumerated (non-base) calls
          BaseCalls      \* Seq(Call): constructors executed before enumeration starts

NoneI == 99             \* Python None inside index / slice triples (integer sentinel)
NoneQ == <<0, 0>>       \* Python None where a rational is expected (bounds)

(* ---------------------------------------------------------------- literals *)
\* lk: int | float | bool | npf64 | npi64 | npf32 | npu8 | npf16 | list | arr ... ; qs: values row-major ; sh: shape
\* (a literal denotes its exact value whatever its NumPy dtype: uint8(3) is the number 3, never arithmetic modulo 256)
Lit(lk, qs, sh) == [lk |-> lk, qs |-> qs, sh |-> sh]
NoLit           == Lit("none", <<>>, <<>>)
LitS(lk, q)     == Lit(lk, <<q>>, <<>>)
IsScalarLit(l)  == l.sh = <<>> /\ l.lk # "none"
Is1D(l)         == Len(l.sh) = 1
Is2D(l)         == Len(l.sh) = 2
\* Python-level acceptance by the vector / matrix operators: isinstance(x, (int, float))
PyNumber(l)     == l.lk \in {"int", "float", "bool", "npf64", "tiny"}
\* a "tiny" literal is the Python float  q * 1e-12 : TLC integers are 32-bit, so the scale is an opaque atom (parameter id 99)
\* whose value the independent interpreter supplies; normal forms stay exact (symbolic in that atom)
TinyAtom        == 99
LitConst(l)     == IF l.lk = "tiny" THEN [k |-> "bin", op |-> "*", l |-> [k |-> "const", q |-> l.qs[1]], r |-> [k |-> "par", p |-> TinyAtom]]
                   ELSE [k |-> "const", q |-> l.qs[1]]

(* ---------------------------------------------------------------- calls (uniform record) *)
Call(c, a, b, op, lit, i, j, k, s) ==
    [c |-> c, a |-> a, b |-> b, op |-> op, lit |-> lit, i |-> i, j |-> j, k |-> k, s |-> s]

(* ---------------------------------------------------------------- objects *)
SObj(t)       == [kind |-> "S", den |-> t, may |-> FALSE]
VObj(ns, nm)  == [kind |-> "V", names |-> ns, vname |-> nm, may |-> FALSE]   \* vname: the view's own .name (tokens)
EObj(ds)      == [kind |-> "E", dens |-> ds, may |-> FALSE]
EPObj(ds, ns, k) == [kind |-> "EP", dens |-> ds, names |-> ns, pow |-> k, may |-> FALSE]
EUObj(ds, ns, f) == [kind |-> "EU", dens |-> ds, names |-> ns, fn |-> f, may |-> FALSE]
MObj(nss, sym) == [kind |-> "M", names |-> nss, sym |-> sym, may |-> FALSE]
MEObj(dss)    == [kind |-> "ME", dens |-> dss, may |-> FALSE]
MVPObj(ds, ns, lit) == [kind |-> "MVP", dens |-> ds, names |-> ns, lit |-> lit, may |-> FALSE]  \* MatrixVectorProduct (a VectorExpression)
CObj(t, s)    == [kind |-> "C", den |-> t, sense |-> s, may |-> FALSE]
CLObj(cs)     == [kind |-> "CL", cons |-> cs, may |-> FALSE]
PObj(p)       == [kind |-> "S", den |-> Par(p), may |-> FALSE]
\* VectorParameter: a container of scalar Parameters (no arithmetic of its own; elements are reached by index / iteration)
VPObj(ps)     == [kind |-> "VP", pids |-> ps, may |-> FALSE]
Raised(why)   == [kind |-> "X", why |-> why, may |-> FALSE]
May(o)        == IF o.kind = "X" THEN o ELSE [o EXCEPT !.may = TRUE]

IsVecLike(o)  == o.kind \in {"V", "E", "MVP"}
IsElemWise(o) == o.kind \in {"EP", "EU"}
Elems(o)      == IF o.kind = "V" THEN [i \in 1..Len(o.names) |-> Var(o.names[i])] ELSE o.dens
VSize(o)      == Len(Elems(o))
MRows(o)      == IF o.kind = "M" THEN Len(o.names) ELSE Len(o.dens)
MCols(o)      == IF o.kind = "M" THEN Len(o.names[1]) ELSE Len(o.dens[1])
MElems(o)     == IF o.kind = "M" THEN [i \in 1..MRows(o) |-> [j \in 1..MCols(o) |-> Var(o.names[i][j])]] ELSE o.dens
IsMatLike(o)  == o.kind \in {"M", "ME"}

(* ---------------------------------------------------------------- Python slicing *)
SliceStart(n, start, step) ==
    IF start = NoneI THEN (IF step > 0 THEN 0 ELSE n - 1)
    ELSE IF start < 0 THEN (IF start + n < 0 THEN (IF step > 0 THEN 0 ELSE -1) ELSE start + n)
    ELSE (IF start >= n THEN (IF step > 0 THEN n ELSE n - 1) ELSE start)
SliceStop(n, stop, step) ==
    IF stop = NoneI THEN (IF step > 0 THEN n ELSE -1)
    ELSE IF stop < 0 THEN (IF stop + n < 0 THEN (IF step > 0 THEN 0 ELSE -1) ELSE stop + n)
    ELSE (IF stop >= n THEN (IF step > 0 THEN n ELSE n - 1) ELSE stop)
RECURSIVE SliceIdx(_, _, _)
SliceIdx(i, stop, step) ==
    IF (step > 0 /\ i >= stop) \/ (step < 0 /\ i <= stop) THEN <<>>
    ELSE <<i>> \o SliceIdx(i + step, stop, step)
\* 0-based indices selected by slice(start, stop, step) on a sequence of length n (step # 0; None step = 1)
PyIdx(n, start, stop, step0) ==
    LET step == IF step0 = NoneI THEN 1 ELSE step0
    IN  SliceIdx(SliceStart(n, start, step), SliceStop(n, stop, step), step)
PySlice(seq, start, stop, step) ==
    LET idx == PyIdx(Len(seq), start, stop, step)
    IN  [k \in 1..Len(idx) |-> seq[idx[k] + 1]]
\* Python integer index (negative from the end); -1 = out of range
PyIndex(n, i) == LET j == IF i < 0 THEN i + n ELSE i IN IF j < 0 \/ j >= n THEN -1 ELSE j

(* ---------------------------------------------------------------- helpers *)
RECURSIVE SumTerms(_)
SumTerms(ts) == IF Len(ts) = 1 THEN ts[1] ELSE Add(SumTerms(SubSeq(ts, 1, Len(ts) - 1)), ts[Len(ts)])
Flat(dss) == FlattenSeq(dss)
LitTerms(l) == [i \in 1..Len(l.qs) |-> Const(l.qs[i])]
LitRow(l, r) == [j \in 1..l.sh[2] |-> Const(l.qs[(r - 1) * l.sh[2] + j])]
MkBin(op, l, r, swap) == IF swap THEN Bin(op, r, l) ELSE Bin(op, l, r)

(* ================================================================ semantics of each call *)

(* --- constructors --- *)
\* MkVar: s = name token ; MkVec: s = base name, i = size ; MkMat: s = base, i = rows, j = cols, k = 1 if symmetric
\* bounds / domain ride in lit.qs = <<lb, ub>> (NoneQ for None) and op = domain
ApplyMkVar(c)  == SObj(Var(<<c.s>>))
ApplyMkVec(c)  == IF c.i <= 0 THEN Raised("must") ELSE VObj([n \in 1..c.i |-> <<c.s, n - 1>>], <<c.s>>)
ApplyMkMat(c)  ==
    IF c.i <= 0 \/ c.j <= 0 \/ (c.k = 1 /\ c.i # c.j) THEN Raised("must")
    ELSE MObj([r \in 1..c.i |-> [q \in 1..c.j |->
                 IF c.k = 1 /\ q < r THEN <<c.s, q - 1, r - 1>> ELSE <<c.s, r - 1, q - 1>>]], c.k = 1)
ApplyMkPar(c)  == PObj(c.i)                 \* i = parameter id; initial value in lit
\* VectorParameter(name, size, values): i = id of the first element parameter, j = size; lit = initial values (array of
\* that length, or one scalar for all); elements get consecutive ids
ApplyMkVPar(c) == IF c.j <= 0 THEN Raised("must")
                  ELSE IF ~(IsScalarLit(c.lit) \/ (Len(c.lit.sh) = 1 /\ c.lit.sh[1] = c.j)) THEN Raised("must")
                  ELSE VPObj([k \in 1..c.j |-> c.i + k - 1])
ApplyMkConst(c) == SObj(LitConst(c.lit))  \* Constant(literal)

(* --- scalar arithmetic --- *)
ApplySBin(c, h) ==            \* Expression op Expression
    IF h[c.a].kind # "S" \/ h[c.b].kind # "S" THEN Raised("type") ELSE SObj(Bin(c.op, h[c.a].den, h[c.b].den))
ApplySBinLit(c, h, swap) ==   \* Expression op literal (swap: literal op Expression)
    IF h[c.a].kind # "S" \/ ~IsScalarLit(c.lit) THEN Raised("type")
    ELSE SObj(MkBin(c.op, h[c.a].den, LitConst(c.lit), swap))
ApplySNeg(c, h) == IF h[c.a].kind # "S" THEN Raised("type") ELSE SObj(Neg(h[c.a].den))
ApplySPos(c, h) == IF h[c.a].kind # "S" THEN Raised("type") ELSE SObj(h[c.a].den)

(* --- functions: f(scalar) | f(VectorVariable) -> EU | f(VectorExpression) -> E --- *)
\* functions that accept vectors element-wise; the others are scalar-only (vector operand: unsupported)
VecFns == {"sin", "cos", "tan", "exp", "log", "sqrt", "abs", "tanh", "sinh", "cosh"}
ApplyFn(c, h) ==
    LET o == h[c.a]
        w(r) == IF c.op \in VecFns THEN r ELSE May(r) IN
    IF o.kind = "S" THEN SObj(Un(c.op, o.den))
    ELSE IF o.kind = "V" THEN w(EUObj([i \in 1..Len(o.names) |-> Un(c.op, Var(o.names[i]))], o.names, c.op))
    ELSE IF o.kind \in {"E", "MVP"} THEN w(EObj([i \in 1..Len(o.dens) |-> Un(c.op, o.dens[i])]))
    ELSE May(Raised("type"))
ApplyFnLit(c) == IF IsScalarLit(c.lit) THEN SObj(Un(c.op, LitConst(c.lit))) ELSE Raised("type")

(* --- vector views --- *)
ApplyIndex(c, h) ==
    LET o == h[c.a] IN
    IF o.kind = "V" THEN
        (LET j == PyIndex(Len(o.names), c.i) IN IF j = -1 THEN Raised("must") ELSE SObj(Var(o.names[j + 1])))
    ELSE IF o.kind \in {"E", "MVP", "EP", "EU"} THEN
        (LET j == PyIndex(Len(o.dens), c.i) IN IF j = -1 THEN Raised("must") ELSE SObj(o.dens[j + 1]))
    ELSE IF o.kind = "VP" THEN
        (LET j == PyIndex(Len(o.pids), c.i) IN IF j = -1 THEN Raised("must") ELSE PObj(o.pids[j + 1]))
    ELSE Raised("type")
\* the view's name as optyx renders it: f"{name}[{start or 0}:{stop or size}]" -- the step is not part of it
SliceName(o, c) == o.vname \o <<IF c.i = NoneI \/ c.i = 0 THEN 0 ELSE c.i,
                                IF c.j = NoneI \/ c.j = 0 THEN Len(o.names) ELSE c.j>>
ApplySlice(c, h) ==
    LET o == h[c.a] IN
    IF o.kind # "V" THEN Raised("type")
    ELSE LET ns == PySlice(o.names, c.i, c.j, c.k) IN
         IF Len(ns) = 0 THEN Raised("must") ELSE VObj(ns, SliceName(o, c))

(* --- element-wise vector arithmetic --- *)
VecOperandTerms(o) == Elems(o)
ApplyVBin(c, h) ==            \* vector op vector
    LET a == h[c.a]  b == h[c.b] IN
    IF ~(IsVecLike(a) \/ a.kind = "EP") \/ ~(IsVecLike(b) \/ b.kind = "EP") THEN May(Raised("type"))
    ELSE IF a.kind = "EP" THEN May(Raised("type"))     \* ElementwisePower has no vector arithmetic of its own
    ELSE IF VSize(a) # VSize(b) THEN Raised("must")
    ELSE LET ea == Elems(a)  eb == Elems(b)
             r == EObj([i \in 1..Len(ea) |-> Bin(c.op, ea[i], eb[i])]) IN
         IF c.op \in {"*", "/", "**"} /\ ~(a.kind = "V" /\ c.op = "**") THEN May(r)   \* documented: + and - only between vectors
         ELSE IF a.kind = "V" /\ c.op = "**" THEN May(r)
         ELSE r
ApplyVBinLit(c, h, swap) ==   \* vector op literal, or literal op vector
    LET a == h[c.a]  l == c.lit IN
    IF ~IsVecLike(a) THEN May(Raised("type"))
    ELSE LET ea == Elems(a) IN
    IF IsScalarLit(l) THEN
        LET r == EObj([i \in 1..Len(ea) |-> MkBin(c.op, ea[i], LitConst(l), swap)]) IN
        IF c.op = "**" THEN
            (IF swap THEN May(r)
             ELSE IF a.kind = "V" THEN (IF PyNumber(l) THEN EPObj(r.dens, a.names, l.qs[1]) ELSE May(EPObj(r.dens, a.names, l.qs[1])))
             ELSE IF PyNumber(l) THEN r ELSE May(r))
        ELSE IF PyNumber(l) THEN r ELSE May(r)
    ELSE IF Is1D(l) THEN
        IF l.sh[1] # Len(ea) THEN Raised("must")
        ELSE LET r == EObj([i \in 1..Len(ea) |-> MkBin(c.op, ea[i], Const(l.qs[i]), swap)]) IN
             IF c.op = "**" THEN May(r) ELSE r
    ELSE Raised("must")       \* 2-D array against a vector: incompatible dimensionality
ApplyVNeg(c, h) ==
    LET a == h[c.a] IN
    IF ~IsVecLike(a) THEN May(Raised("type"))
    ELSE LET ea == Elems(a) IN EObj([i \in 1..Len(ea) |-> Neg(ea[i])])

(* --- reductions --- *)
ApplySum(c, h) ==             \* o.sum()  |  vector_sum(o) when c.k = 1
    LET a == h[c.a] IN
    IF IsVecLike(a) \/ IsElemWise(a) THEN
        (IF c.k = 1 /\ IsElemWise(a) THEN May(Raised("type")) ELSE SObj(SumTerms(Elems(a))))
    ELSE IF IsMatLike(a) THEN SObj(SumTerms(Flat(MElems(a))))
    ELSE Raised("type")
ApplyDot(c, h) ==             \* a.dot(b)  |  a @ b when c.k = 1
    LET a == h[c.a]  b == h[c.b] IN
    IF ~IsVecLike(a) \/ ~IsVecLike(b) THEN May(Raised("type"))
    ELSE IF VSize(a) # VSize(b) THEN Raised("must")
    ELSE LET ea == Elems(a)  eb == Elems(b) IN SObj(SumTerms([i \in 1..Len(ea) |-> Mul(ea[i], eb[i])]))
ApplyLinComb(c, h) ==         \* lit @ a  (k = 0)  |  a @ lit (k = 1)
    LET a == h[c.a]  l == c.lit IN
    IF ~IsVecLike(a) THEN May(Raised("type"))
    ELSE LET ea == Elems(a) IN
    IF Is1D(l) THEN
        IF l.sh[1] # Len(ea) THEN Raised("must")
        ELSE SObj(SumTerms([i \in 1..Len(ea) |-> Mul(Const(l.qs[i]), ea[i])]))
    ELSE IF Is2D(l) /\ c.k = 0 THEN     \* 2-D array @ vector: matrix-vector product
        IF l.sh[2] # Len(ea) THEN Raised("must")
        ELSE LET ds == [r \in 1..l.sh[1] |-> SumTerms([j \in 1..Len(ea) |-> Mul(LitRow(l, r)[j], ea[j])])] IN
             IF a.kind = "V" THEN MVPObj(ds, a.names, l) ELSE May(EObj(ds))
    ELSE Raised("must")
ApplyNorm(c, h) ==            \* a.norm(ord) (k = 0, VectorVariable only) / norm(a, ord) (k = 1); i = ord
    LET a == h[c.a] IN
    IF ~IsVecLike(a) \/ (c.k = 0 /\ a.kind # "V") THEN May(Raised("type"))
    ELSE IF c.i \notin {1, 2} THEN Raised("must")
    ELSE LET ea == Elems(a) IN
         IF c.i = 2 THEN SObj(Un("sqrt", SumTerms([i \in 1..Len(ea) |-> Mul(ea[i], ea[i])])))
         ELSE SObj(SumTerms([i \in 1..Len(ea) |-> Un("abs", ea[i])]))

(* --- comparisons --- *)
ConDen(l, r) == Sub(l, r)
ApplyCmp(c, h) ==             \* a sense b   (handles)
    LET a == h[c.a]  b == h[c.b] IN
    IF a.kind = "S" /\ b.kind = "S" THEN CObj(ConDen(a.den, b.den), c.op)
    ELSE IF IsVecLike(a) /\ IsVecLike(b) THEN
        IF VSize(a) # VSize(b) THEN Raised("must")
        ELSE LET ea == Elems(a)  eb == Elems(b) IN CLObj([i \in 1..Len(ea) |-> [den |-> ConDen(ea[i], eb[i]), sense |-> c.op]])
    ELSE IF IsVecLike(a) /\ b.kind = "S" THEN
        May(CLObj([i \in 1..VSize(a) |-> [den |-> ConDen(Elems(a)[i], b.den), sense |-> c.op]]))
    ELSE May(Raised("type"))
Flip(s) == IF s = "<=" THEN ">=" ELSE IF s = ">=" THEN "<=" ELSE s
ApplyCmpLit(c, h, swap) ==    \* a sense lit ; swap: lit sense a  (Python reflects the operator)
    LET a == h[c.a]  l == c.lit  sense == c.op IN
    IF a.kind = "S" THEN
        IF IsScalarLit(l) THEN CObj(IF swap THEN ConDen(LitConst(l), a.den) ELSE ConDen(a.den, LitConst(l)), sense)
        ELSE May(Raised("type"))
    ELSE IF IsVecLike(a) THEN
        LET ea == Elems(a)
            mk(i, t) == [den |-> IF swap THEN ConDen(t, ea[i]) ELSE ConDen(ea[i], t), sense |-> sense] IN
        IF IsScalarLit(l) THEN
            (LET r == CLObj([i \in 1..Len(ea) |-> mk(i, LitConst(l))]) IN IF PyNumber(l) THEN r ELSE May(r))
        ELSE IF Is1D(l) THEN
            IF l.sh[1] # Len(ea) THEN Raised("must") ELSE CLObj([i \in 1..Len(ea) |-> mk(i, Const(l.qs[i]))])
        ELSE Raised("must")
    ELSE May(Raised("type"))

(* ---------------------------------------------------------------- matrices *)
\* slice operands of matrix indexing come from a table (the call record carries table indices)
SliceTab == << <<NoneI, NoneI, NoneI>>, <<0, 2, NoneI>>, <<1, NoneI, NoneI>>, <<NoneI, NoneI, -1>>,
               <<NoneI, -1, NoneI>>, <<0, NoneI, 2>>, <<2, 5, NoneI>>, <<1, 1, NoneI>> >>
SliceOf(id) == SliceTab[id]
\* A[i, j] (k=0) | A[i, sl_j] (k=1) | A[sl_i, j] (k=2) | A[sl_i, sl_j] (k=3)
ApplyMGet(c, h) ==
    LET o == h[c.a] IN
    IF o.kind # "M" THEN May(Raised("type")) ELSE
    LET nr == MRows(o)  nc == MCols(o) IN
    IF c.k = 0 THEN
        LET i == PyIndex(nr, c.i)  j == PyIndex(nc, c.j) IN
        IF i = -1 \/ j = -1 THEN Raised("must") ELSE SObj(Var(o.names[i + 1][j + 1]))
    ELSE IF c.k = 1 THEN
        LET i == PyIndex(nr, c.i)  sl == SliceOf(c.j) IN
        IF i = -1 THEN Raised("must")
        ELSE LET ns == PySlice(o.names[i + 1], sl[1], sl[2], sl[3]) IN
             IF Len(ns) = 0 THEN Raised("must") ELSE VObj(ns, <<"row", i>>)
    ELSE IF c.k = 2 THEN
        LET j == PyIndex(nc, c.j)  sl == SliceOf(c.i) IN
        IF j = -1 THEN Raised("must")
        ELSE LET rows == PySlice(o.names, sl[1], sl[2], sl[3]) IN
             IF Len(rows) = 0 THEN Raised("must") ELSE VObj([r \in 1..Len(rows) |-> rows[r][j + 1]], <<"col", j>>)
    ELSE
        LET s1 == SliceOf(c.i)  s2 == SliceOf(c.j)
            rows == PySlice(o.names, s1[1], s1[2], s1[3]) IN
        IF Len(rows) = 0 THEN Raised("must")
        ELSE LET sub == [r \in 1..Len(rows) |-> PySlice(rows[r], s2[1], s2[2], s2[3])] IN
             IF Len(sub[1]) = 0 THEN Raised("must") ELSE MObj(sub, FALSE)
ApplyTranspose(c, h) ==
    LET o == h[c.a] IN
    IF o.kind = "M" THEN MObj([j \in 1..MCols(o) |-> [i \in 1..MRows(o) |-> o.names[i][j]]], o.sym)
    ELSE IF o.kind = "ME" THEN MEObj([j \in 1..MCols(o) |-> [i \in 1..MRows(o) |-> o.dens[i][j]]])
    ELSE Raised("must")            \* vectors have no transpose: documented error
ApplyDiagonal(c, h) ==        \* A.diagonal() (k = 0) | diag(A) (k = 1)
    LET o == h[c.a] IN
    IF o.kind # "M" THEN (IF o.kind = "V" /\ c.k = 1 THEN Raised("must") ELSE May(Raised("type")))
    ELSE IF MRows(o) # MCols(o) THEN Raised("must")
    ELSE VObj([i \in 1..MRows(o) |-> o.names[i][i]], <<"diag">>)
ApplyTrace(c, h) ==           \* A.trace() (k = 0) | trace(A) (k = 1)
    LET o == h[c.a] IN
    IF o.kind # "M" THEN May(Raised("type"))
    ELSE IF MRows(o) # MCols(o) THEN Raised("must")
    ELSE SObj(SumTerms([i \in 1..MRows(o) |-> Var(o.names[i][i])]))
ApplyFrobenius(c, h) ==
    LET o == h[c.a] IN
    IF o.kind # "M" THEN May(Raised("type"))
    ELSE LET es == Flat(MElems(o)) IN SObj(Un("sqrt", SumTerms([i \in 1..Len(es) |-> Mul(es[i], es[i])])))
ApplyMBin(c, h) ==            \* matrix op matrix
    LET a == h[c.a]  b == h[c.b] IN
    IF ~IsMatLike(a) \/ ~IsMatLike(b) THEN May(Raised("type"))
    ELSE IF MRows(a) # MRows(b) \/ MCols(a) # MCols(b) THEN Raised("must")
    ELSE LET ea == MElems(a)  eb == MElems(b) IN
         MEObj([i \in 1..MRows(a) |-> [j \in 1..MCols(a) |-> Bin(c.op, ea[i][j], eb[i][j])]])
ApplyMBinLit(c, h, swap) ==   \* matrix op literal | literal op matrix
    LET a == h[c.a]  l == c.lit IN
    IF ~IsMatLike(a) THEN May(Raised("type"))
    ELSE LET ea == MElems(a)  nr == MRows(a)  nc == MCols(a) IN
    IF IsScalarLit(l) THEN
        LET r == MEObj([i \in 1..nr |-> [j \in 1..nc |-> MkBin(c.op, ea[i][j], LitConst(l), swap)]]) IN
        IF PyNumber(l) /\ ~(swap /\ c.op = "**") THEN r ELSE May(r)
    ELSE IF Is2D(l) THEN
        IF l.sh[1] # nr \/ l.sh[2] # nc THEN Raised("must")
        ELSE LET r == MEObj([i \in 1..nr |-> [j \in 1..nc |-> MkBin(c.op, ea[i][j], LitRow(l, i)[j], swap)]]) IN
             IF swap /\ (l.lk = "list" \/ c.op = "**") THEN May(r) ELSE r
    ELSE IF Is1D(l) THEN          \* NumPy would broadcast a row vector; rejecting is acceptable
        IF l.sh[1] # nc THEN Raised("must")
        ELSE May(MEObj([i \in 1..nr |-> [j \in 1..nc |-> MkBin(c.op, ea[i][j], Const(l.qs[j]), swap)]]))
    ELSE Raised("must")
ApplyMNeg(c, h) ==
    LET a == h[c.a] IN
    IF ~IsMatLike(a) THEN May(Raised("type"))
    ELSE LET ea == MElems(a) IN MEObj([i \in 1..MRows(a) |-> [j \in 1..MCols(a) |-> Neg(ea[i][j])]])
ApplyMatVec(c, h) ==          \* A @ x
    LET a == h[c.a]  b == h[c.b] IN
    IF a.kind # "M" THEN May(Raised("type"))
    ELSE IF ~IsVecLike(b) THEN May(Raised("type"))        \* matrix @ matrix: documented as unsupported
    ELSE IF MCols(a) # VSize(b) THEN Raised("must")
    ELSE LET eb == Elems(b) IN
         EObj([i \in 1..MRows(a) |-> SumTerms([j \in 1..MCols(a) |-> Mul(Var(a.names[i][j]), eb[j])])])
ApplyQuadForm(c, h) ==        \* quadratic_form(x, Q)
    LET a == h[c.a]  l == c.lit IN
    IF ~IsVecLike(a) THEN May(Raised("type"))
    ELSE IF ~Is2D(l) \/ l.sh[1] # l.sh[2] \/ l.sh[1] # VSize(a) THEN Raised("must")
    ELSE LET ea == Elems(a)  n == Len(ea) IN
         SObj(SumTerms([ij \in 1..(n * n) |->
                LET i == ((ij - 1) \div n) + 1  j == ((ij - 1) % n) + 1 IN Mul(Mul(ea[i], LitRow(l, i)[j]), ea[j])]))
ApplyMCmp(c, h) ==
    LET a == h[c.a]  b == h[c.b] IN
    IF ~IsMatLike(a) \/ ~IsMatLike(b) THEN May(Raised("type"))
    ELSE IF MRows(a) # MRows(b) \/ MCols(a) # MCols(b) THEN Raised("must")
    ELSE LET ea == Flat(MElems(a))  eb == Flat(MElems(b)) IN
         CLObj([i \in 1..Len(ea) |-> [den |-> ConDen(ea[i], eb[i]), sense |-> c.op]])
ApplyMCmpLit(c, h, swap) ==
    LET a == h[c.a]  l == c.lit IN
    IF ~IsMatLike(a) THEN May(Raised("type"))
    ELSE LET ea == Flat(MElems(a))  nr == MRows(a)  nc == MCols(a)
             mk(i, t) == [den |-> IF swap THEN ConDen(t, ea[i]) ELSE ConDen(ea[i], t), sense |-> c.op] IN
    IF IsScalarLit(l) THEN
        (LET r == CLObj([i \in 1..Len(ea) |-> mk(i, LitConst(l))]) IN IF PyNumber(l) THEN r ELSE May(r))
    ELSE IF Is2D(l) THEN
        IF l.sh[1] # nr \/ l.sh[2] # nc THEN Raised("must")
        ELSE (LET r == CLObj([i \in 1..Len(ea) |-> mk(i, Const(l.qs[i]))]) IN IF l.lk = "list" THEN May(r) ELSE r)
    ELSE IF Is1D(l) THEN
        IF l.sh[1] # nc THEN Raised("must")
        ELSE May(CLObj([i \in 1..Len(ea) |-> mk(i, Const(l.qs[((i - 1) % nc) + 1]))]))
    ELSE Raised("must")

(* ---------------------------------------------------------------- problem assembly *)
\* Problem().minimize|maximize(h[a]).subject_to(h[b]).subject_to(h[k])   (b, k optional: 0)
ConsOf(o) == IF o.kind = "C" THEN <<[den |-> o.den, sense |-> o.sense]>> ELSE o.cons
PRObj(t, sense, cons) == [kind |-> "PR", obj |-> t, sense |-> sense, cons |-> cons, may |-> FALSE]
ApplyProblem(c, h) ==
    IF h[c.a].kind # "S" THEN Raised("type")
    ELSE IF c.b # 0 /\ h[c.b].kind \notin {"C", "CL"} THEN Raised("type")
    ELSE IF c.k # 0 /\ h[c.k].kind \notin {"C", "CL"} THEN Raised("type")
    ELSE PRObj(h[c.a].den, c.op,
               (IF c.b = 0 THEN <<>> ELSE ConsOf(h[c.b])) \o (IF c.k = 0 THEN <<>> ELSE ConsOf(h[c.k])))

(* ---------------------------------------------------------------- dispatch *)
ApplyCore(c, h) ==
  CASE c.c = "MkVar"     -> ApplyMkVar(c)
    [] c.c = "MkVec"     -> ApplyMkVec(c)
    [] c.c = "MkMat"     -> ApplyMkMat(c)
    [] c.c = "MkPar"     -> ApplyMkPar(c)
    [] c.c = "MkConst"   -> ApplyMkConst(c)
    [] c.c = "MkVPar"    -> ApplyMkVPar(c)
    [] c.c = "SBin"      -> ApplySBin(c, h)
    [] c.c = "SBinLit"   -> ApplySBinLit(c, h, FALSE)
    [] c.c = "SRBinLit"  -> ApplySBinLit(c, h, TRUE)
    [] c.c = "SNeg"      -> ApplySNeg(c, h)
    [] c.c = "SPos"      -> ApplySPos(c, h)
    [] c.c = "Fn"        -> ApplyFn(c, h)
    [] c.c = "FnLit"     -> ApplyFnLit(c)
    [] c.c = "Index"     -> ApplyIndex(c, h)
    [] c.c = "Slice"     -> ApplySlice(c, h)
    [] c.c = "VBin"      -> ApplyVBin(c, h)
    [] c.c = "VBinLit"   -> ApplyVBinLit(c, h, FALSE)
    [] c.c = "VRBinLit"  -> ApplyVBinLit(c, h, TRUE)
    [] c.c = "VNeg"      -> ApplyVNeg(c, h)
    [] c.c = "Sum"       -> ApplySum(c, h)
    [] c.c = "Dot"       -> ApplyDot(c, h)
    [] c.c = "LinComb"   -> ApplyLinComb(c, h)
    [] c.c = "Norm"      -> ApplyNorm(c, h)
    [] c.c = "Cmp"       -> ApplyCmp(c, h)
    [] c.c = "CmpLit"    -> ApplyCmpLit(c, h, FALSE)
    [] c.c = "RCmpLit"   -> ApplyCmpLit(c, h, TRUE)
    [] c.c = "Problem"   -> ApplyProblem(c, h)
    [] c.c = "MGet"      -> ApplyMGet(c, h)
    [] c.c = "Transpose" -> ApplyTranspose(c, h)
    [] c.c = "Diagonal"  -> ApplyDiagonal(c, h)
    [] c.c = "Trace"     -> ApplyTrace(c, h)
    [] c.c = "Frobenius" -> ApplyFrobenius(c, h)
    [] c.c = "MBin"      -> ApplyMBin(c, h)
    [] c.c = "MBinLit"   -> ApplyMBinLit(c, h, FALSE)
    [] c.c = "MRBinLit"  -> ApplyMBinLit(c, h, TRUE)
    [] c.c = "MNeg"      -> ApplyMNeg(c, h)
    [] c.c = "MatVec"    -> ApplyMatVec(c, h)
    [] c.c = "QuadForm"  -> ApplyQuadForm(c, h)
    [] c.c = "MCmp"      -> ApplyMCmp(c, h)
    [] c.c = "MCmpLit"   -> ApplyMCmpLit(c, h, FALSE)
    [] c.c = "MRCmpLit"  -> ApplyMCmpLit(c, h, TRUE)

(* an operand that is itself a raised call cannot be used *)
UsesRaised(c, h) == (c.a # 0 /\ h[c.a].kind = "X") \/ (c.b # 0 /\ h[c.b].kind = "X")

Apply(c, h) == IF UsesRaised(c, h) THEN Raised("operand") ELSE ApplyCore(c, h)

RECURSIVE BuildHeap(_, _)
BuildHeap(cs, h) == IF cs = <<>> THEN h ELSE BuildHeap(Tail(cs), Append(h, Apply(Head(cs), h)))
=============================================================================
