------------------------------- MODULE ApiGen -------------------------------
(* Enumeration of API programs over Api.tla: one state = one program (its calls, the heap it builds
   and the spec's prediction about the newest object).  MC_*.tla instantiate the constants. *)
EXTENDS Api, Ext

CONSTANTS En,          \* enabled call families (set of strings)
          ScalarLits,  \* scalar literal operands
          ArrayLits,   \* 1-D / 2-D array and list operands
          Slices,      \* slice triples <<start, stop, step>>
          Indices,     \* integer indices
          Fns,         \* unary functions
          SOps, VOps,  \* scalar / vector binary operators
          Senses,      \* comparison senses
          AllNames,    \* every declared variable name (for derivative predictions)
          SingValues,  \* rational values placed on coordinates to hit singular sets (0, 1, -1)
          Want,        \* which predictions to attach: subset of {"D", "H", "V", "deg"}
          ObjCands,    \* if non-empty: base handles that may serve as objective (enumerated objects always may)
          Stages,      \* if non-empty: Stages[n] = call families allowed for the n-th call
          FinalEn,     \* if non-empty: call families allowed as the last call of a program
          PRPredict(_) \* prediction for an assembled problem (module Analysis); <<>> when unused

VARIABLES heap, calls, pred
vars == <<heap, calls, pred>>

(* The state holds only the enumerated part; base objects are a constant prefix of the heap. *)
BaseHeap == BuildHeap(BaseCalls, <<>>)
NB     == Len(BaseCalls)
FH     == BaseHeap \o heap             \* the full heap; handles index into it
HL     == NB + Len(heap)
NCalls == Len(calls)
Handles == 1..HL
Recent(h) == NCalls = 0 \/ h = HL        \* connectedness: every new call uses the newest object
Live   == IF NCalls = 0 THEN TRUE ELSE heap[Len(heap)].kind # "X"     \* nothing is built on a raised call

(* ---- prediction about one object ---- *)
\* ordered variable lists for compiled callables: every permutation of the variables used, and every
\* permutation of a superset with one foreign variable (small cases); the harness adds rotations for larger ones
VLists(vs) ==
    IF Cardinality(vs) > 3 THEN {}
    ELSE LET foreign == IF AllNames \ vs = {} THEN {} ELSE {CHOOSE n \in AllNames \ vs : TRUE} IN
         SetToSeqs(vs) \cup (IF (Cardinality(vs) <= 2 \/ "V3" \in Want) /\ foreign # {} THEN SetToSeqs(vs \cup foreign) ELSE {})
\* exact total degree of the denotation: >= 0 polynomial of that degree; -1 not a polynomial by normal form
\* (transcendental atom, fractional / negative / variable power, division by zero function);
\* -2 guarded arithmetic overflowed; -3 rational function with a non-constant denominator (left to the numeric test)
SpecDeg(t) ==
    LET n == QNF(t) IN
    IF ~n.ok THEN (IF n.why = "toobig" THEN -2 ELSE -1)
    ELSE IF QIsPoly(n.q) THEN PDeg(QToPoly(n.q)) ELSE -3
\* points on singular sets: each listed value substituted for one or all variables, the others regular
SingPred(t) ==
    IF "sing" \notin Want \/ TVars(t) = {} \/ Cardinality(TVars(t)) > 3 THEN <<>>
    ELSE LET vs == TVars(t)
             pts == {[n \in vs |-> IF n \in S THEN a ELSE Norm(3, 2)] : S \in (SUBSET vs) \ {{}}, a \in SingValues}
             seqp == SetToSeq(pts)
         IN [i \in 1..Len(seqp) |->
               [pt |-> seqp[i],
                val |-> Sanitize(ExtEval(t, seqp[i])),
                d   |-> [v \in vs |-> Sanitize(ExtEval(DS(t, v), seqp[i]))],
                h   |-> [vw \in vs \X vs |-> Sanitize(ExtEval(H(t, vw[1], vw[2]), seqp[i]))]]]
ScalarPred(t) ==
    [den  |-> t,
     sing |-> SingPred(t),
     deg  |-> IF "deg" \in Want THEN SpecDeg(t) ELSE -9,
     vars |-> TVars(t),
     Vs   |-> IF "V" \in Want THEN VLists(TVars(t)) ELSE {},
     D    |-> IF "D" \in Want THEN [v \in AllNames |-> DS(t, v)] ELSE <<>>,
     H    |-> IF "H" \in Want THEN [vw \in (TVars(t) \X TVars(t)) |-> H(t, vw[1], vw[2])] ELSE <<>>,
     nf   |-> IF "nf" \in Want THEN QNF(t) ELSE <<>>]
\* what the nonlinear solver must be handed for one constraint "den sense 0":
\* a function that is >= 0 (== 0 for equalities) exactly on the satisfied set, and its derivatives
ScipyCon(cn) ==
    LET f == IF cn.sense = "<=" THEN Neg(cn.den) ELSE cn.den IN
    [type |-> IF cn.sense = "==" THEN "eq" ELSE "ineq", fun |-> f,
     jac |-> [v \in AllNames |-> DS(f, v)], vars |-> TVars(cn.den)]
IsView(o) == o.kind \in {"V", "M"} \/ (o.kind = "S" /\ o.den.k = "var")
Predict(o) ==
    IF "bounds" \in Want /\ IsView(o) THEN PRPredict(o)
    ELSE IF o.kind = "S" THEN ScalarPred(o.den)
    ELSE IF o.kind = "PR" THEN PRPredict(o)
    ELSE IF o.kind = "C" THEN <<ScipyCon([den |-> o.den, sense |-> o.sense])>>
    ELSE IF o.kind = "CL" THEN [i \in 1..Len(o.cons) |-> ScipyCon(o.cons[i])]
    ELSE <<>>

\* a call family is enabled; with FinalEn non-empty the last call of a program must come from FinalEn
\* with Stages non-empty the n-th call of a program must come from Stages[n]
On(f) == /\ f \in En
         /\ (FinalEn = {} \/ NCalls < MaxCalls - 1 \/ f \in FinalEn)
         /\ (Stages = <<>> \/ (NCalls + 1 <= Len(Stages) /\ f \in Stages[NCalls + 1]))
Do(c) == /\ calls' = Append(calls, c)
         /\ heap'  = Append(heap, Apply(c, FH))
         /\ pred'  = Append(pred, Predict(heap'[Len(heap')]))     \* aligned with heap

K(o, ks) == FH[o].kind \in ks
C2(c, a, b, op)        == Call(c, a, b, op, NoLit, 0, 0, 0, "")
CL(c, a, op, lit)      == Call(c, a, 0, op, lit, 0, 0, 0, "")
CI(c, a, i, j, k)      == Call(c, a, 0, "", NoLit, i, j, k, "")

GenSBin    == On("SBin") /\ \E op \in SOps, a \in Handles, b \in Handles :
                 K(a, {"S"}) /\ K(b, {"S"}) /\ (Recent(a) \/ Recent(b)) /\ Do(C2("SBin", a, b, op))
GenSBinLit == On("SBinLit") /\ \E op \in SOps, a \in Handles, l \in ScalarLits, sw \in BOOLEAN :
                 K(a, {"S"}) /\ Recent(a) /\ Do(CL(IF sw THEN "SRBinLit" ELSE "SBinLit", a, op, l))
GenSNeg    == On("SNeg") /\ \E a \in Handles : K(a, {"S"}) /\ Recent(a) /\ Do(C2("SNeg", a, 0, ""))
GenFn      == On("Fn") /\ \E f \in Fns, a \in Handles : K(a, {"S"}) /\ Recent(a) /\ Do(C2("Fn", a, 0, f))
GenVFn     == On("VFn") /\ \E f \in Fns, a \in Handles : K(a, {"V", "E", "MVP"}) /\ Recent(a) /\ Do(C2("Fn", a, 0, f))
GenIndex   == On("Index") /\ \E a \in Handles, i \in Indices :
                 K(a, {"V", "E", "MVP", "EP", "EU", "VP"}) /\ Recent(a) /\ Do(CI("Index", a, i, 0, 0))
GenSlice   == On("Slice") /\ \E a \in Handles, sl \in Slices :
                 K(a, {"V"}) /\ Recent(a) /\ Do(CI("Slice", a, sl[1], sl[2], sl[3]))
GenVBin    == On("VBin") /\ \E op \in VOps, a \in Handles, b \in Handles :
                 K(a, {"V", "E", "MVP", "EP"}) /\ K(b, {"V", "E", "MVP", "EP"}) /\ (Recent(a) \/ Recent(b)) /\ Do(C2("VBin", a, b, op))
GenVBinLit == On("VBinLit") /\ \E op \in VOps, a \in Handles, l \in ScalarLits \cup ArrayLits, sw \in BOOLEAN :
                 K(a, {"V", "E", "MVP"}) /\ Recent(a) /\ Do(CL(IF sw THEN "VRBinLit" ELSE "VBinLit", a, op, l))
GenVNeg    == On("VNeg") /\ \E a \in Handles : K(a, {"V", "E", "MVP"}) /\ Recent(a) /\ Do(C2("VNeg", a, 0, ""))
GenSum     == On("Sum") /\ \E a \in Handles, k \in {0, 1} :
                 K(a, {"V", "E", "MVP", "EP", "EU", "M", "ME"}) /\ Recent(a) /\ (k = 1 => K(a, {"V", "E"}))
                 /\ Do(CI("Sum", a, 0, 0, k))
GenDot     == On("Dot") /\ \E a \in Handles, b \in Handles, k \in {0, 1} :
                 K(a, {"V", "E", "MVP"}) /\ K(b, {"V", "E", "MVP"}) /\ (Recent(a) \/ Recent(b))
                 /\ Do(Call("Dot", a, b, "", NoLit, 0, 0, k, ""))
GenLinComb == On("LinComb") /\ \E a \in Handles, l \in ArrayLits, k \in {0, 1} :
                 K(a, {"V", "E", "MVP"}) /\ Recent(a) /\ Do(Call("LinComb", a, 0, "", l, 0, 0, k, ""))
GenNorm    == On("Norm") /\ \E a \in Handles, o \in {1, 2}, k \in {0, 1} :
                 K(a, {"V", "E", "MVP"}) /\ Recent(a) /\ (k = 0 => K(a, {"V"})) /\ Do(CI("Norm", a, o, 0, k))
GenCmp     == On("Cmp") /\ \E s \in Senses, a \in Handles, b \in Handles :
                 K(a, {"S", "V", "E", "MVP"}) /\ K(b, {"S", "V", "E", "MVP"}) /\ (Recent(a) \/ Recent(b)) /\ Do(C2("Cmp", a, b, s))
GenCmpLit  == On("CmpLit") /\ \E s \in Senses, a \in Handles, l \in ScalarLits \cup ArrayLits, sw \in BOOLEAN :
                 K(a, {"S", "V", "E", "MVP"}) /\ Recent(a) /\ (sw => s # "==")
                 /\ Do(CL(IF sw THEN "RCmpLit" ELSE "CmpLit", a, s, l))

MSl == 1..Len(SliceTab)
GenMGet    == On("MGet") /\ \E a \in Handles, k \in 0..3, i \in Indices \cup MSl, j \in Indices \cup MSl :
                 /\ K(a, {"M"}) /\ Recent(a)
                 /\ (k \in {0, 1} => i \in Indices) /\ (k \in {2, 3} => i \in MSl)
                 /\ (k \in {0, 2} => j \in Indices) /\ (k \in {1, 3} => j \in MSl)
                 /\ Do(CI("MGet", a, i, j, k))
GenTranspose == On("Transpose") /\ \E a \in Handles : K(a, {"M", "ME", "V"}) /\ Recent(a) /\ Do(C2("Transpose", a, 0, ""))
GenDiagonal == On("Diagonal") /\ \E a \in Handles, k \in {0, 1} : K(a, {"M"}) /\ Recent(a) /\ Do(CI("Diagonal", a, 0, 0, k))
GenTrace   == On("Trace") /\ \E a \in Handles, k \in {0, 1} : K(a, {"M"}) /\ Recent(a) /\ Do(CI("Trace", a, 0, 0, k))
GenFrob    == On("Frobenius") /\ \E a \in Handles : K(a, {"M"}) /\ Recent(a) /\ Do(C2("Frobenius", a, 0, ""))
GenMBin    == On("MBin") /\ \E op \in VOps, a \in Handles, b \in Handles :
                 K(a, {"M", "ME"}) /\ K(b, {"M", "ME"}) /\ (Recent(a) \/ Recent(b)) /\ Do(C2("MBin", a, b, op))
GenMBinLit == On("MBinLit") /\ \E op \in VOps, a \in Handles, l \in ScalarLits \cup ArrayLits, sw \in BOOLEAN :
                 K(a, {"M", "ME"}) /\ Recent(a) /\ Do(CL(IF sw THEN "MRBinLit" ELSE "MBinLit", a, op, l))
GenMNeg    == On("MNeg") /\ \E a \in Handles : K(a, {"M", "ME"}) /\ Recent(a) /\ Do(C2("MNeg", a, 0, ""))
GenMatVec  == On("MatVec") /\ \E a \in Handles, b \in Handles :
                 K(a, {"M"}) /\ K(b, {"V", "E", "MVP", "M"}) /\ (Recent(a) \/ Recent(b)) /\ Do(C2("MatVec", a, b, ""))
GenQuadForm == On("QuadForm") /\ \E a \in Handles, l \in {x \in ArrayLits : Is2D(x)} :
                 K(a, {"V", "E", "MVP"}) /\ Recent(a) /\ Do(CL("QuadForm", a, "", l))
GenMCmp    == On("MCmp") /\ \E sn \in Senses, a \in Handles, b \in Handles :
                 K(a, {"M", "ME"}) /\ K(b, {"M", "ME"}) /\ (Recent(a) \/ Recent(b)) /\ Do(C2("MCmp", a, b, sn))
GenMCmpLit == On("MCmpLit") /\ \E sn \in Senses, a \in Handles, l \in ScalarLits \cup ArrayLits, sw \in BOOLEAN :
                 K(a, {"M", "ME"}) /\ Recent(a) /\ (sw => sn # "==")
                 /\ Do(CL(IF sw THEN "MRCmpLit" ELSE "MCmpLit", a, sn, l))

GenProblem == On("Problem") /\ \E a \in Handles, b \in Handles \cup {0}, k \in Handles \cup {0}, sn \in {"minimize", "maximize"} :
                 /\ K(a, {"S"}) /\ TVars(FH[a].den) # {} /\ (b # 0 => K(b, {"C", "CL"}))
                 /\ (ObjCands = {} \/ a \in ObjCands \/ a > NB) /\ (k # 0 => (b # 0 /\ k # b /\ K(k, {"C", "CL"})))
                 /\ (Recent(a) \/ (b # 0 /\ Recent(b)))
                 /\ (k # 0 => "Problem2" \in En)
                 /\ (sn = "maximize" => "Maximize" \in En)
                 /\ Do(Call("Problem", a, b, sn, NoLit, 0, 0, k, ""))

Init == /\ calls = <<>>
        /\ heap = <<>>
        /\ pred = <<>>
Next == /\ NCalls < MaxCalls /\ Live
        /\ \/ GenSBin \/ GenSBinLit \/ GenSNeg \/ GenFn \/ GenVFn \/ GenIndex \/ GenSlice
           \/ GenVBin \/ GenVBinLit \/ GenVNeg \/ GenSum \/ GenDot \/ GenLinComb \/ GenNorm
           \/ GenCmp \/ GenCmpLit
           \/ GenMGet \/ GenTranspose \/ GenDiagonal \/ GenTrace \/ GenFrob \/ GenMBin \/ GenMBinLit \/ GenMNeg
           \/ GenMatVec \/ GenQuadForm \/ GenMCmp \/ GenMCmpLit \/ GenProblem

(* ---- spec-internal invariants about the newest object ---- *)
Top == FH[HL]
TopTerms == IF Top.kind = "S" THEN <<Top.den>>
            ELSE IF Top.kind \in {"V", "E", "MVP", "EP", "EU"} THEN Elems(Top)
            ELSE IF Top.kind \in {"M", "ME"} THEN Flat(MElems(Top))
            ELSE IF Top.kind = "C" THEN <<Top.den>>
            ELSE IF Top.kind = "CL" THEN [i \in 1..Len(Top.cons) |-> Top.cons[i].den]
            ELSE <<>>
\* every denotation mentions only declared names
DenClosed == \A i \in 1..Len(TopTerms) : TVars(TopTerms[i]) \subseteq AllNames
\* derivative table exact / Hessian symmetric on every enumerated rational-fragment denotation
TopDerivExact == Top.kind = "S" => \A v \in AllNames :
    LET n == QNF(Top.den) IN n.ok => LET dn == QNF(DS(Top.den, v)) IN dn.ok => QEqSafe(dn.q, QDeriv(n.q, v))
=============================================================================
