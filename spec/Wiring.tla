------------------------------- MODULE Wiring -------------------------------
(* What a nonlinear solve must hand to SciPy (C09): the wiring contract of solve_scipy as functions of
   the problem's structure - the method chosen by "auto", which methods get bounds / a Jacobian / a
   Hessian, the sign conventions under maximisation, the constraint dictionaries, and the starting
   point rule (exact rationals).  TLC enumerates every structure; the harness instantiates numbers
   around a manufactured KKT point and compares the arguments captured at the minimize seam, then the
   outcome with a direct scipy.optimize.minimize call on hand-written callables. *)
EXTENDS Rat, Sequences, FiniteSets, TLC

HessianMethods == {"trust-constr", "Newton-CG", "dogleg", "trust-ncg", "trust-exact"}
BoundsMethods  == {"L-BFGS-B", "TNC", "SLSQP", "Powell", "trust-constr", "Nelder-Mead"}
DerivFree      == {"Nelder-Mead", "Powell", "COBYLA"}
NoneQ == <<0, 0>>
IsNoneQ(q) == q[2] = 0

\* the starting point rule of _compute_initial_point, per variable
Eps == Norm(1, 10000)
RMin(a, b) == IF RLeq(a, b) THEN a ELSE b
RMax(a, b) == IF RLeq(a, b) THEN b ELSE a
X0Rule(lb, ub) ==
    IF ~IsNoneQ(lb) /\ ~IsNoneQ(ub) THEN
        LET eps == RMax(Eps, RMul(Norm(1, 100), RSub(ub, lb))) IN RMin(RAdd(lb, eps), RDiv(RAdd(lb, ub), R(2)))
    ELSE IF ~IsNoneQ(lb) THEN RAdd(lb, Eps)
    ELSE IF ~IsNoneQ(ub) THEN RSub(ub, ROne)
    ELSE RZero

Lbs == {NoneQ, R(-2), R(0)}
Ubs == {NoneQ, R(4), Norm(5, 2)}
BoundPairs == {<<l, u>> \in Lbs \X Ubs : TRUE}

ObjClasses  == {"qp", "nonquad", "lsqdeep"}   \* strictly convex quadratic | quadratic + smooth convex non-quadratic |
                                              \* a least-squares fit accumulated term by term over > 400 data points (a deep expression)
ConPatterns == {"none", "eq", "ineq_active", "ineq_inactive", "bounds_active"}
Orders      == {"natural", "reversed"}    \* variable names in creation order or not
Senses      == {"min", "max"}             \* minimise f | maximise -f
Methods     == {"auto", "SLSQP", "trust-constr", "L-BFGS-B"}

HasCons(p) == p \in {"eq", "ineq_active", "ineq_inactive"}
ObjDeg(o)  == IF o = "nonquad" THEN 9 ELSE 2
AutoMethod(o, p) == IF ~HasCons(p) THEN "L-BFGS-B" ELSE IF ObjDeg(o) > 2 THEN "trust-constr" ELSE "SLSQP"

Spellings == {"scalar", "vector"}         \* scalar Variables and products | VectorVariable, quadratic_form, a @ x
ConForms  == {"ge", "le_neg", "const_minus"}   \* lhs >= b | -lhs <= -b | b - lhs <= 0   (the same relation)
ObjForms  == {"plain", "const_minus"}          \* f (resp. -f) | 3 - (-f) (resp. 3 - f)  (the same argmin)
\* optional arguments of solve(): none | use_hessian=False, tol=t | x0=v, maxiter=k
OptForms  == {"default", "nohess_tol", "x0_maxiter"}
Structs == {s \in [n : 2..3, obj : ObjClasses, cons : ConPatterns, order : Orders, sense : Senses, m : Methods, bp : BoundPairs,
                   spell : Spellings, cform : ConForms, oform : ObjForms, others : {"box", "free", "ub"}, opts : OptForms] :
              /\ (~HasCons(s.cons) => s.cform = "ge") /\ (s.cons = "eq" => s.cform = "ge")
              /\ (s.spell = "vector" => s.order = "natural")
              /\ (s.m = "L-BFGS-B" => ~HasCons(s.cons))
              /\ (s.cons = "bounds_active" => ~IsNoneQ(s.bp[2]))
              \* the option variants are crossed with one spelling / form of the rest (they are independent pass-throughs)
              /\ (s.opts # "default" => s.spell = "scalar" /\ s.order = "natural" /\ s.cform = "ge" /\ s.oform = "plain")
              \* the deep objective is crossed with methods, senses, constraint patterns and bounds only
              /\ (s.obj = "lsqdeep" => s.spell = "scalar" /\ s.order = "natural" /\ s.cform = "ge" /\ s.oform = "plain"
                                        /\ s.opts = "default" /\ s.n = 2)}

Wire(s) ==
    LET meth == IF s.m = "auto" THEN AutoMethod(s.obj, s.cons) ELSE s.m IN
    [method    |-> meth,
     has_jac   |-> meth \notin DerivFree,
     has_hess  |-> meth \in HessianMethods /\ s.opts # "nohess_tol",     \* use_hessian=False: no Hessian is handed over (nor compiled)
     tol_passed |-> s.opts = "nohess_tol",            \* tol reaches the solver iff the caller gave one
     maxiter_passed |-> s.opts = "x0_maxiter",        \* options = {maxiter: k} iff the caller gave one
     x0_caller |-> s.opts = "x0_maxiter",             \* the caller's starting point replaces the rule below
     has_bounds |-> meth \in BoundsMethods,
     n_cons    |-> IF HasCons(s.cons) THEN 1 ELSE 0,
     con_type  |-> IF s.cons = "eq" THEN "eq" ELSE IF HasCons(s.cons) THEN "ineq" ELSE "none",
     fun_sign  |-> 1,             \* fun = +f for minimise f, and = -(-f) = +f for maximise -f : the solver always minimises f
     fun_offset |-> IF s.oform = "plain" THEN 0 ELSE IF s.sense = "min" THEN 3 ELSE -3,   \* fun = f + offset
     x0        |-> X0Rule(s.bp[1], s.bp[2]),
     x0others  |-> IF s.others = "box" THEN X0Rule(R(-2), R(4)) ELSE IF s.others = "ub" THEN X0Rule(NoneQ, R(4)) ELSE X0Rule(NoneQ, NoneQ)]

VARIABLES st, pred
Init == st \in Structs /\ pred = Wire(st)
Next == UNCHANGED <<st, pred>>
\* spec-internal sanity of the starting point rule: it lies within the bounds
X0Inside == LET lb == st.bp[1]  ub == st.bp[2] IN
            /\ (~IsNoneQ(lb) => RLeq(lb, pred.x0)) /\ (~IsNoneQ(ub) => RLeq(pred.x0, ub))
AutoNeverUnsupported == (st.m = "auto" /\ HasCons(st.cons)) => pred.method \in {"SLSQP", "trust-constr"}
=============================================================================
