------------------------------- MODULE MC_C19R -------------------------------
(* C19, second instance: the base heap holds the reductions whose compiled evaluators are special-cased
   ((x**2).sum(), (x**3).sum(), sin(x).sum(), x.norm(), x.dot(x)); one call on top of them (quick) or two (thorough).
   C19: derivative callables stay finite at singular points.  For every enumerated expression TLC
   evaluates value, first and second derivatives with the extended arithmetic of Ext.tla at points that
   put 0, 1 or -1 on one or all coordinates, and classifies each entry. *)
EXTENDS ApiGen
Q(n, d) == Norm(n, d)
B(lb, ub) == Lit("bounds", <<lb, ub>>, <<2>>)
MC_BaseCalls == <<
    Call("MkVar", 0, 0, "continuous", B(NoneQ, NoneQ), 0, 0, 0, "s"),
    Call("MkVec", 0, 0, "continuous", B(NoneQ, NoneQ), 2, 0, 0, "x"),
    Call("MkVar", 0, 0, "continuous", B(NoneQ, NoneQ), 0, 0, 0, "t"),
    \* reductions whose compiled evaluators are special-cased: a function / power applied on top of them must
    \* still be sanitised at the points where the reduction is 0
    Call("VBinLit", 2, 0, "**", LitS("int", Q(2, 1)), 0, 0, 0, ""),
    Call("Sum", 4, 0, "", NoLit, 0, 0, 0, ""),
    Call("VBinLit", 2, 0, "**", LitS("int", Q(3, 1)), 0, 0, 0, ""),
    Call("Sum", 6, 0, "", NoLit, 0, 0, 0, ""),
    Call("Fn", 2, 0, "sin", NoLit, 0, 0, 0, ""),
    Call("Sum", 8, 0, "", NoLit, 0, 0, 0, ""),
    Call("Norm", 2, 0, "", NoLit, 2, 0, 0, ""),
    Call("Dot", 2, 2, "", NoLit, 0, 0, 0, ""),
    \* a vector declared with a positive lower bound: the callables must still be total (bounds are mutable, and several
    \* solver methods evaluate outside them)
    Call("MkVec", 0, 0, "continuous", B(Q(1,2), NoneQ), 2, 0, 0, "z"),
    Call("Fn", 12, 0, "log", NoLit, 0, 0, 0, ""),
    Call("Sum", 13, 0, "", NoLit, 0, 0, 0, ""),
    Call("Fn", 12, 0, "sqrt", NoLit, 0, 0, 0, ""),
    Call("Sum", 15, 0, "", NoLit, 0, 0, 0, "")
  >>
MC_AllNames == {<<"s">>, <<"t">>, <<"x", 0>>, <<"x", 1>>, <<"z", 0>>, <<"z", 1>>}
MC_En == {"SBin", "SBinLit", "Fn", "VFn", "VBinLit", "Sum", "Norm", "Dot", "Index"}
MC_EnNeg == MC_En \cup {"SNeg"}      \* C17 uses this instance too: negated reductions (what maximize() hands to the Hessian compiler)
MC_WantHV == {"D", "H", "V"}
MC_NoSing == {}
MC_ObjCands == {}
MC_Stages == <<>>
MC_FinalEn == {}
MC_ScalarLits == {LitS("float", Q(1, 2)), LitS("int", Q(-1, 1)), LitS("int", Q(2, 1)), LitS("float", Q(3, 2)), LitS("float", Q(-1, 2)), LitS("int", Q(3, 1)), LitS("int", Q(1, 1))}
MC_ArrayLits == {}
MC_Slices == {}
MC_Indices == {0}
MC_Fns == {"abs", "sqrt", "log", "asin", "acos", "atanh", "acosh", "sin", "cos", "exp", "tan", "sinh", "cosh", "tanh", "log2", "log10"}
MC_SOps == {"*", "+", "/"}
MC_VOps == {"**", "*"}
MC_Senses == {}
MC_SingValues == {Q(0, 1), Q(1, 1), Q(-1, 1)}
MC_Want == {"sing", "D", "H", "V"}
MC_NoPR(o) == <<>>
ASSUME PrintT(<<"BASE", BaseCalls, BaseHeap, AllNames, SliceTab>>)
=============================================================================
