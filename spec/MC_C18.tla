------------------------------- MODULE MC_C18 -------------------------------
(* C18 (declaration routes): binary variables carry the bounds [0, 1] and integer / binary domains
   survive every view - scalar, vector, matrix, slice, row, column, sub-matrix, transpose, diagonal. *)
EXTENDS Analysis
Q(n, d) == Norm(n, d)
B(lb, ub) == Lit("bounds", <<lb, ub>>, <<2>>)
MC_Code == [b |-> <<98>>, u |-> <<117>>, w |-> <<119>>, K |-> <<75>>, S |-> <<83>>, c |-> <<99>>]
MC_BaseCalls == <<
    Call("MkVar", 0, 0, "binary", B(Q(0,1), Q(1,2)), 0, 0, 0, "b"),          \* declared with a bound inside [0, 1]: still carries [0, 1]
    Call("MkVec", 0, 0, "binary", B(Q(1,4), Q(7,1)), 3, 0, 0, "u"),
    Call("MkVec", 0, 0, "integer", B(Q(0,1), Q(9,1)), 3, 0, 0, "w"),
    Call("MkMat", 0, 0, "binary", B(NoneQ, Q(4,1)), 2, 3, 0, "K"),
    Call("MkMat", 0, 0, "binary", B(Q(1,1), Q(1,1)), 2, 2, 1, "S"),
    Call("MkVar", 0, 0, "continuous", B(Q(1,1), NoneQ), 0, 0, 0, "c")
  >>
MC_AllNames == {<<"b">>, <<"c">>} \cup {<<"u", i>> : i \in 0..2} \cup {<<"w", i>> : i \in 0..2}
               \cup {<<"K", i, j>> : i \in 0..1, j \in 0..2} \cup {<<"S", 0, 0>>, <<"S", 0, 1>>, <<"S", 1, 1>>}
MC_En == {"Index", "Slice", "MGet", "Transpose", "Diagonal"}
MC_ObjCands == {}
MC_Stages == <<>>
MC_FinalEn == {}
MC_ScalarLits == {}
MC_ArrayLits == {}
MC_Slices == { <<NoneI, NoneI, -1>>, <<0, 2, NoneI>>, <<1, NoneI, NoneI>>, <<NoneI, NoneI, 2>> }
MC_Indices == {0, -1, 1}
MC_Fns == {}
MC_SOps == {}
MC_VOps == {}
MC_Senses == {}
MC_SingValues == {}
MC_Want == {"bounds"}
ASSUME PrintT(<<"BASE", BaseCalls, BaseHeap, AllNames, SliceTab>>)
ASSUME PrintT(<<"CODE", [k \in DOMAIN MC_Code |-> MC_Code[k]]>>)
\* the spec itself: binary => [0, 1] whatever was declared
ASSUME BoundsOf(<<"u", 1>>) = <<R(0), R(1)>> /\ BoundsOf(<<"K", 1, 2>>) = <<R(0), R(1)>> /\ BoundsOf(<<"w", 0>>) = <<Q(0,1), Q(9,1)>>
=============================================================================
