------------------------------- MODULE MC_Solve -------------------------------
EXTENDS Solve
O(i, d, n) == [id |-> i, deg |-> d, nc |-> n]
Cn(i, d, e) == [id |-> i, deg |-> d, eq |-> e, nc |-> FALSE]
MC_ObjRecs == {O(1, 1, FALSE), O(2, 1, FALSE), O(3, 2, FALSE), O(4, 9, FALSE), O(5, 1, TRUE)}
\* the history graph (MC_Hist) additionally offers: 6 = a quadratic objective over x, y and an auxiliary variable that sorts
\* BEFORE them (objective 5 has one that sorts after); 8 = an objective linear in the variables whose parameter occurs only
\* inside a function (exp(-p) * x + 2 y)
MC_ObjRecsH == MC_ObjRecs \cup {O(6, 2, FALSE), O(8, 9, FALSE)}
MC_ConRecs == {Cn(11, 1, FALSE), Cn(12, 9, TRUE), Cn(13, 1, FALSE)}      \* 13 introduces a variable the objective does not mention
MC_Excs == Excs
MC_NoExcs == {}
MC_OptSets == {DefaultOpts}
\* a small instance over every combination of solve options (MC_SolveOpts.cfg)
MC_OptSetsAll == [useHess : BOOLEAN, x0 : BOOLEAN, tol : BOOLEAN, maxiter : BOOLEAN]
MC_MethodsH == {"auto", "linprog", "SLSQP", "trust-constr"}
MC_MethodsAll == {"auto", "linprog", "highs", "highs-ds", "highs-ipm", "SLSQP", "trust-constr", "L-BFGS-B", "TNC", "COBYLA",
                  "Nelder-Mead", "Powell", "BFGS", "CG", "Newton-CG"}
MC_ObjRecsP == {O(3, 2, FALSE), O(1, 1, FALSE), O(5, 1, TRUE)}
\* the fixpoint check keeps two records: 13 is abstractly a copy of 11 (it matters only to the concrete replay, MC_Hist)
MC_ConRecs2 == {Cn(11, 1, FALSE), Cn(12, 9, TRUE)}
MC_ConRecsP == {Cn(11, 1, FALSE)}
MC_Methods == {"auto", "linprog", "SLSQP", "trust-constr", "L-BFGS-B"}
\* observation variables do not distinguish states of the design
View == <<obj, sense, cons, bver, pver, cVars, cSolver, cLP, cLin, hook, pc, call, res, fault, out>>
=============================================================================
